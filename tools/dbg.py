#!/venv/bin/python -W ignore
"""tools/dbg.py <PID> <key-substring> [max] [tier] : run units in-process, print matching violations."""
import json, os, sys
HERE = os.path.dirname(os.path.dirname(os.path.abspath(__file__)))
sys.path.insert(0, HERE)
from vlib import env
env.activate()
from vlib import harness, probe
probe.install_reach()
pid, key = sys.argv[1], sys.argv[2]
mx = int(sys.argv[3]) if len(sys.argv) > 3 else 2
tier = sys.argv[4] if len(sys.argv) > 4 else "quick"
prop = harness.load_prop(pid)
if hasattr(prop, "setup_worker"):
    prop.setup_worker()
n = 0
for u in prop.units(tier, int(os.environ.get("VERIF_SEED", "0"))):
    case = prop.make_case(u)
    res = prop.check_case(case)
    hits = [v for v in res.violations if key in v["key"]]
    if hits:
        n += 1
        print("== unit", u, case.get("template"))
        print("   transforms:", json.dumps(case.get("transforms"), default=str)[:900])
        for x in (case.get("spec") or {"vars": []})["vars"]:
            if x.get("view_insertions"):
                print("   view_ins[%s]:" % x["alias"], json.dumps(x["view_insertions"])[:400])
            if x["t"] in ("cat", "ca"):
                print("   cats[%s]:" % x["alias"], [(c["id"], int(c["missing"]), c.get("numeric_value")) for c in x["cats"]], x.get("kind"))
        if case.get("spec"):
            print("   measures:", case["spec"]["measures"], "weighted:", case["spec"]["weight"] is not None)
        else:
            print("   mode:", case.get("mode"), [[f[0] for f in sp["facets"]] for sp in case.get("specs", [])])
        for v in hits[:2]:
            print("   ", v["key"], json.dumps(v["detail"], default=str)[:1200])
        if n >= mx:
            break
print("matching units:", n)
