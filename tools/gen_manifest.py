#!/venv/bin/python
"""Regenerate /verif/MANIFEST.json from the property modules that exist (vlib/props/cXX.py).

Every module provides ID, TITLE, LEVEL_TEXT (optional), TECHNIQUE (optional), DESIGN_REF.
Properties without a module yet are listed under not_applicable with the reason.
"""

import importlib
import json
import os
import sys

HERE = os.path.dirname(os.path.dirname(os.path.abspath(__file__)))
sys.path.insert(0, HERE)

SHAPES = {
    "R": "reference-model monitor: public outputs vs a respondent-level oracle over generated surveys",
    "I": "intrinsic contract among the library's own public outputs",
    "M": "relational (two-run) monitor over recorded public outputs",
    "H": "history monitor: recorded read sequences vs pristine evaluations",
}


def main():
    props = [json.loads(ln) for ln in open(os.path.join(HERE, "properties.jsonl"))]
    checks, na = [], []
    for p in props:
        pid = p["id"]
        path = os.path.join(HERE, "vlib", "props", pid.lower() + ".py")
        if not os.path.exists(path):
            na.append({"property_id": pid,
                       "reason": "check not built yet in this round (runtime-monitoring design "
                                 "for it is DESIGN.md section 4); not a claim that the "
                                 "technique cannot apply"})
            continue
        m = importlib.import_module("vlib.props." + pid.lower())
        checks.append({
            "property_id": pid,
            "quick_cmd": "./check %s --tier quick" % pid,
            "thorough_cmd": "./check %s --tier thorough" % pid,
            "evidence_file": "evidence/%s.json" % pid,
            "replay_cmd_template": "./check %s --replay {path}" % pid,
            "engine": "crcube-runtime-monitors",
            "level_claimed": {
                "category": "exploration",
                "text": getattr(m, "LEVEL_TEXT", None) or (
                    "Held on the executions observed: the real library is run on generated, "
                    "hostile workloads and every public read is compared by an oracle; the "
                    "evidence file states how many cases, monitor evaluations and which "
                    "extractor/collator classes were actually reached. Nothing is proved."),
                "design_ref": getattr(m, "DESIGN_REF", "DESIGN.md section 4, %s" % pid),
            },
            "level_note": "; ".join(getattr(m, "ASSUMPTIONS", [])) or "see DESIGN.md 2",
            "technique": getattr(m, "TECHNIQUE", "runtime monitoring"),
        })
    manifest = {
        "version": 1,
        "setup_cmd": "/venv/bin/python -m pip install --quiet --no-index --find-links "
                     "/opt/veriftools/wheels --target .deps icontract || true",
        "hooks": {
            "guard": "CRCUBE_VERIF",
            "enable": "no hook lives in /repo: monitors attach from the harness (wrapping "
                      "public reads and class factories at import time); CRCUBE_VERIF=1 is set "
                      "by the harness for its own worker processes only",
            "baseline_off_cmd": "cd /repo && /venv/bin/python -m pytest -q -p no:cacheprovider "
                                "--timeout=900 --continue-on-collection-errors",
            "source_commits": [],
            "add_only": True,
        },
        "engines": [{
            "name": "crcube-runtime-monitors", "path": "vlib/",
            "serves_properties": [c["property_id"] for c in checks],
            "kind_free_text": "survey simulator + response builder + respondent-level oracle; "
                              "boundary probes on the real cr.cube objects; reference / "
                              "intrinsic / relational / history monitors (./check)",
        }],
        "checks": checks,
        "not_applicable": na,
        "notes": "Exit codes of ./check: 0 held on everything observed, 1 VIOLATION (replay file "
                 "written), 2 INCONCLUSIVE (a promised monitor / pairing had zero evaluations, a "
                 "worker died or the watchdog fired; never folded into held or violated). "
                 "VERIF_SEED / --seed select the workload, VERIF_JOBS the worker processes.",
    }
    with open(os.path.join(HERE, "MANIFEST.json"), "w") as fh:
        json.dump(manifest, fh, indent=1)
    print("checks: %s ; not built: %s" % ([c["property_id"] for c in checks],
                                          [x["property_id"] for x in na]))


if __name__ == "__main__":
    main()
