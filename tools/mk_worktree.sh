#!/bin/sh
# tools/mk_worktree.sh <dir> : scratch git worktree of /repo HEAD with helpers so that tests
# and demo programs import cr.cube from the worktree (the editable install pins /repo/src).
WT="$1"
git -C /repo worktree add --detach "$WT" HEAD >/dev/null 2>&1 || exit 1
cat > "$WT/conftest.py" <<'PY'
import os, sys
_src = os.path.join(os.path.dirname(os.path.abspath(__file__)), 'src')
for _k in [m for m in sys.modules if m.startswith('cr.')]:
    del sys.modules[_k]
sys.path.insert(0, _src)
if 'cr' in sys.modules:
    sys.modules['cr'].__path__ = [os.path.join(_src, 'cr')]
import cr.cube
assert cr.cube.__file__.startswith(_src), cr.cube.__file__
PY
cat > "$WT/wtpython" <<PY
#!/bin/sh
# run a python program against THIS worktree's src/ :  ./wtpython demo.py [args]
exec /venv/bin/python -c "
import os, sys, runpy
src = os.path.join('$WT', 'src')
sys.path.insert(0, src)
m = sys.modules.get('cr')
if m is not None:
    m.__path__ = [os.path.join(src, 'cr')]
import cr.cube
assert cr.cube.__file__.startswith(src), cr.cube.__file__
sys.argv = sys.argv[1:]
runpy.run_path(sys.argv[0], run_name='__main__')
" "\$@"
PY
chmod +x "$WT/wtpython"
printf 'conftest.py\nwtpython\n' >> "$WT/.git_info_exclude_tmp" 2>/dev/null
echo "$WT"
