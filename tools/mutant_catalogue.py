"""Catalogue of deliberate breaks (DESIGN.md appendix A). One textual edit each."""

CM = "matrix/cubemeasure.py"
MM = "matrix/measure.py"

MUTANTS = [
    {"id": "A01", "file": CM, "props": ["C01"],
     "what": "_CatXMrCubeCounts.counts takes the 'other' plane",
     "old": "        # --- No MR, so counts are already in correct shape\n        return self._counts[:, :, 0]",
     "new": "        # --- No MR, so counts are already in correct shape\n        return self._counts[:, :, 1]"},
    {"id": "A02", "file": CM, "props": ["C01", "C06"],
     "what": "_slice_idx_expr picks the 'other' plane of an MR table axis",
     "old": "            return np.s_[slice_idx, 0]", "new": "            return np.s_[slice_idx, 1]"},
    {"id": "A03", "file": "dimension.py", "props": ["C01"],
     "what": "valid_elements stops at the first missing element",
     "old": "        return Elements(element for element in self if not element.missing)",
     "new": "        import itertools\n        return Elements(itertools.takewhile(lambda e: not e.missing, self))"},
    {"id": "A04", "file": "cube.py", "props": ["C01"],
     "what": "unavailable mean surfaces as 0.0 instead of NaN",
     "old": "                np.nan if isinstance(x, dict) else x for x in measure_payload[\"data\"]\n            ),\n            dtype=np.float64,\n        ).flatten()\n\n\nclass _MediansMeasure",
     "new": "                0.0 if isinstance(x, dict) else x for x in measure_payload[\"data\"]\n            ),\n            dtype=np.float64,\n        ).flatten()\n\n\nclass _MediansMeasure"},
    {"id": "A05", "file": CM, "props": ["C02", "C03"],
     "what": "_CatXMrCubeCounts.row_bases ignores 'other' answers",
     "old": "        # --- selected and not-selected both contribute to margin (axis=2), both rows\n        # --- and columns are retained.\n        return np.sum(self._counts, axis=2)\n\n    @lazyproperty\n    def table_bases(self):\n        \"\"\"2D np.float64 ndarray of table-wise bases for each matrix cell.\"\"\"\n        # --- weighted-counts is (rows, cols, selected/not)",
     "new": "        # --- selected and not-selected both contribute to margin (axis=2), both rows\n        # --- and columns are retained.\n        return self.counts\n\n    @lazyproperty\n    def table_bases(self):\n        \"\"\"2D np.float64 ndarray of table-wise bases for each matrix cell.\"\"\"\n        # --- weighted-counts is (rows, cols, selected/not)"},
    {"id": "A06", "file": CM, "props": ["C02"],
     "what": "_MrXMrCubeCounts.table_bases sums the row selection axis only",
     "old": "        return np.sum(self._counts, axis=(1, 3))",
     "new": "        return np.sum(self._counts, axis=(1,))[:, :, 0]"},
    {"id": "A07", "file": "min_base_size_mask.py", "props": ["C02"],
     "what": "mask uses <= instead of <",
     "old": "            return self._slice.row_unweighted_bases < self._size",
     "new": "            return self._slice.row_unweighted_bases <= self._size"},
    {"id": "A08", "file": MM, "props": ["C02", "C04"],
     "what": "_RowWeightedBases._subtotal_columns sums the addends' row bases",
     "old": "        return np.broadcast_to(self._base_values[:, 0][:, None], subtotal_columns.shape)\n\n    @lazyproperty\n    def _subtotal_rows(self):\n        \"\"\"2D np.float64 ndarray of row-subtotal row-proportions denominator values.\n\n        This is the third \"block\" and has the shape (n_row_subtotals, n_cols).\n        \"\"\"\n        # --- Summing works on rows because row-proportion denominators add along this\n        # --- axis. This wouldn't work on MR-rows but there can be no subtotals on an\n        # --- ARRAY",
     "new": "        return subtotal_columns\n\n    @lazyproperty\n    def _subtotal_rows(self):\n        \"\"\"2D np.float64 ndarray of row-subtotal row-proportions denominator values.\n\n        This is the third \"block\" and has the shape (n_row_subtotals, n_cols).\n        \"\"\"\n        # --- Summing works on rows because row-proportion denominators add along this\n        # --- axis. This wouldn't work on MR-rows but there can be no subtotals on an\n        # --- ARRAY"},
]
