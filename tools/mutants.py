#!/venv/bin/python
"""Self-validation of the monitors (DESIGN.md 6.2 / appendix A): deliberate breaks.

Each mutant is one textual edit of the library applied to a scratch copy of /repo/src
(under /tmp, removed afterwards); the named checks are pointed at the copy through
VERIF_REPO and must report VIOLATION (exit 1) in the quick tier.

    tools/mutants.py [--only A01,A05] [--props C01,C02] [--tier quick] [--suite]

--suite additionally runs the repository's own test suite against the mutant (slow) to tell
whether the unedited suite would have noticed.
Nothing here is part of a registered check; evidence files are restored after the run.
"""

import argparse
import json
import os
import shutil
import subprocess
import sys
import tempfile

HERE = os.path.dirname(os.path.dirname(os.path.abspath(__file__)))
sys.path.insert(0, HERE)
from tools.mutant_catalogue import MUTANTS  # noqa: E402


def apply(m, root):
    p = os.path.join(root, "src", "cr", "cube", m["file"])
    s = open(p).read()
    n = s.count(m["old"])
    if n < 1:
        raise RuntimeError("%s: pattern not found in %s" % (m["id"], m["file"]))
    s = s.replace(m["old"], m["new"], m.get("count", 1))
    open(p, "w").write(s)


def main():
    ap = argparse.ArgumentParser()
    ap.add_argument("--only", default="")
    ap.add_argument("--props", default="")
    ap.add_argument("--tier", default="quick")
    ap.add_argument("--suite", action="store_true")
    ap.add_argument("--jobs", default="16")
    a = ap.parse_args()
    only = set(x for x in a.only.split(",") if x)
    props = [x for x in a.props.split(",") if x]
    ev_backup = tempfile.mkdtemp(prefix="evbk")
    evdir = os.path.join(HERE, "evidence")
    if os.path.isdir(evdir):
        shutil.copytree(evdir, os.path.join(ev_backup, "evidence"))
    results = []
    try:
        for m in MUTANTS:
            if only and m["id"] not in only:
                continue
            root = tempfile.mkdtemp(prefix="mut_%s_" % m["id"])
            try:
                shutil.copytree("/repo/src", os.path.join(root, "src"))
                apply(m, root)
                row = {"id": m["id"], "what": m["what"], "checks": {}}
                for pid in (props or m["props"]):
                    if not os.path.exists(os.path.join(HERE, "vlib", "props",
                                                       pid.lower() + ".py")):
                        row["checks"][pid] = "no-check"
                        continue
                    env = dict(os.environ, VERIF_REPO=root, VERIF_JOBS=a.jobs)
                    p = subprocess.run([os.path.join(HERE, "check"), pid, "--tier", a.tier],
                                       capture_output=True, text=True, env=env)
                    nv = p.stdout.count("VIOLATION property=")
                    row["checks"][pid] = {0: "MISSED", 1: "caught", 2: "inconclusive"}.get(
                        p.returncode, "rc%d" % p.returncode) + ("(%d)" % nv if nv else "")
                    if p.returncode not in (0, 1):
                        row["checks"][pid] += " " + p.stdout[-300:].replace("\n", " | ")
                if a.suite:
                    shutil.copytree("/repo/tests", os.path.join(root, "tests"))
                    for f in ("setup.cfg", "tox.ini"):
                        if os.path.exists("/repo/" + f):
                            shutil.copy("/repo/" + f, root)
                    with open(os.path.join(root, "conftest.py"), "w") as fh:
                        fh.write(
                            "import os, sys\n"
                            "_src = os.path.join(os.path.dirname(os.path.abspath(__file__)), 'src')\n"
                            "for _k in [m for m in sys.modules if m.startswith('cr.')]:\n"
                            "    del sys.modules[_k]\n"
                            "sys.path.insert(0, _src)\n"
                            "if 'cr' in sys.modules:\n"
                            "    sys.modules['cr'].__path__ = [os.path.join(_src, 'cr')]\n"
                            "import cr.cube\n"
                            "assert cr.cube.__file__.startswith(_src), cr.cube.__file__\n")
                    env = dict(os.environ, PYTHONPATH=os.path.join(root, "src"))
                    p = subprocess.run(
                        ["/venv/bin/python", "-m", "pytest", "-q", "-x", "-p",
                         "no:cacheprovider", "-n", "8", os.path.join(root, "tests")],
                        capture_output=True, text=True, env=env, cwd=root)
                    row["suite"] = "passes" if p.returncode == 0 else "FAILS: " + \
                        p.stdout.strip().splitlines()[-1][:120]
                results.append(row)
                print(json.dumps(row), flush=True)
            finally:
                shutil.rmtree(root, ignore_errors=True)
    finally:
        if os.path.isdir(os.path.join(ev_backup, "evidence")):
            shutil.rmtree(evdir, ignore_errors=True)
            shutil.copytree(os.path.join(ev_backup, "evidence"), evdir)
        shutil.rmtree(ev_backup, ignore_errors=True)
        shutil.rmtree(os.path.join(HERE, "replays"), ignore_errors=True)
    missed = [r["id"] for r in results if any(str(v).startswith("MISSED")
                                              for v in r["checks"].values())]
    print("mutants run: %d, with a missed check: %s" % (len(results), missed or "none"))


if __name__ == "__main__":
    main()
