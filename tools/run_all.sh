#!/bin/sh
# tools/run_all.sh [tier] [seed] : every check once; prints one RESULT line per property.
TIER="${1:-quick}"; SEED="${2:-0}"
cd "$(dirname "$0")/.." || exit 2
rc=0
for p in C01 C02 C03 C04 C05 C06 C07 C08 C09 C10 C11 C12 C13 C14 C15 C16 C17 C18 C19 C20; do
  out=$(VERIF_SEED=$SEED ./check $p --tier $TIER 2>&1); r=$?
  echo "$out" | grep -E "^RESULT|^VIOLATION|^INCONCLUSIVE|violation keys" | cut -c1-400
  [ $r -ne 0 ] && rc=1
done
exit $rc
