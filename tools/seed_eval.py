#!/venv/bin/python
"""Confirm and evaluate a seeded breaking change kept under /verif/seeded/<name>/.

    tools/seed_eval.py <name> [--ingest <worktree>] [--props C01,C05 | --all] [--tier quick]
                       [--no-suite] [--seed N]

--ingest copies `git diff` of the sub-agent's scratch worktree and its demo.py into
seeded/<name>/ first. Then, in a fresh scratch worktree of /repo (under /tmp, removed at the
end): (1) the repository's unedited suite is run with the change applied, (2) the
demonstration is run with and without the change, (3) the named checks are pointed at the
changed tree through VERIF_REPO. Prints a JSON summary and updates seeded/<name>/meta.json
(keys: suite, demo_without, demo_with, checks). Evidence and replays of these runs go to a scratch
directory (VERIF_SCRATCH_OUT), so several evaluations may run side by side.
"""

import argparse
import json
import os
import shutil
import subprocess
import sys
import tempfile

HERE = os.path.dirname(os.path.dirname(os.path.abspath(__file__)))
ALL = ["C%02d" % k for k in range(1, 21)]


def sh(cmd, **kw):
    return subprocess.run(cmd, capture_output=True, text=True, **kw)


def main():
    ap = argparse.ArgumentParser()
    ap.add_argument("name")
    ap.add_argument("--ingest", default=None)
    ap.add_argument("--props", default="")
    ap.add_argument("--all", action="store_true")
    ap.add_argument("--tier", default="quick")
    ap.add_argument("--no-suite", action="store_true")
    ap.add_argument("--seed", default="0")
    a = ap.parse_args()
    d = os.path.join(HERE, "seeded", a.name)
    os.makedirs(d, exist_ok=True)
    if a.ingest:
        diff = sh(["git", "-C", a.ingest, "diff", "--", "src"]).stdout
        if not diff.strip():
            print("no diff in", a.ingest)
            return 2
        open(os.path.join(d, "patch.diff"), "w").write(diff)
        demo = os.path.join(a.ingest, "demo.py")
        if os.path.exists(demo):
            shutil.copy(demo, os.path.join(d, "demo.py"))
    meta_path = os.path.join(d, "meta.json")
    meta = json.load(open(meta_path)) if os.path.exists(meta_path) else {}
    wt = tempfile.mkdtemp(prefix="seedeval_%s_" % a.name)
    os.rmdir(wt)
    r = sh([os.path.join(HERE, "tools", "mk_worktree.sh"), wt])
    if r.returncode != 0:
        print("worktree failed", r.stderr)
        return 2
    scratch_out = tempfile.mkdtemp(prefix="seedout")
    try:
        demo = os.path.join(d, "demo.py")
        if os.path.exists(demo):
            shutil.copy(demo, os.path.join(wt, "demo.py"))
            p = sh([os.path.join(wt, "wtpython"), os.path.join(wt, "demo.py")], cwd=wt)
            meta["demo_without_change"] = "exit %d" % p.returncode
        ap_ = sh(["git", "-C", wt, "apply", os.path.join(d, "patch.diff")])
        if ap_.returncode != 0:
            print("patch does not apply:", ap_.stderr)
            return 2
        if os.path.exists(demo):
            p = sh([os.path.join(wt, "wtpython"), os.path.join(wt, "demo.py")], cwd=wt)
            meta["demo_with_change"] = "exit %d: %s" % (
                p.returncode, (p.stderr or p.stdout).strip().splitlines()[-1][:200]
                if (p.stderr or p.stdout).strip() else "")
        if not a.no_suite:
            p = sh(["/venv/bin/python", "-m", "pytest", "-q", "-p", "no:cacheprovider", "-n", "12",
                    "tests"], cwd=wt)
            meta["suite_with_change"] = p.stdout.strip().splitlines()[-1][:120]
        props = ALL if a.all else [x for x in a.props.split(",") if x]
        checks = meta.get("checks_%s" % a.tier, {})
        for pid in props:
            env = dict(os.environ, VERIF_REPO=wt, VERIF_SEED=a.seed, VERIF_SCRATCH_OUT=scratch_out)
            p = sh([os.path.join(HERE, "check"), pid, "--tier", a.tier], env=env)
            nv = p.stdout.count("VIOLATION property=")
            keys = [ln for ln in p.stdout.splitlines() if ln.startswith("violation keys:")]
            checks[pid] = {0: "missed", 1: "caught", 2: "inconclusive"}.get(
                p.returncode, "rc%d" % p.returncode)
            if nv:
                checks[pid] += " (%s)" % (keys[0][len("violation keys: "):][:300] if keys
                                          else nv)
            print(pid, checks[pid], flush=True)
        meta["checks_%s" % a.tier] = checks
        json.dump(meta, open(meta_path, "w"), indent=1)
        print(json.dumps(meta, indent=1))
    finally:
        sh(["git", "-C", "/repo", "worktree", "remove", "--force", wt])
        shutil.rmtree(wt, ignore_errors=True)
        shutil.rmtree(scratch_out, ignore_errors=True)
    return 0


if __name__ == "__main__":
    sys.exit(main())
