#!/venv/bin/python
"""Regenerate seeded/README.md from the meta.json files."""
import glob, json, os
HERE = os.path.dirname(os.path.dirname(os.path.abspath(__file__)))
rows = []
for f in sorted(glob.glob(os.path.join(HERE, "seeded", "*", "meta.json"))):
    m = json.load(open(f))
    name = os.path.basename(os.path.dirname(f))
    checks = {}
    for tier in ("quick", "thorough"):
        for k, v in (m.get("checks_%s" % tier) or {}).items():
            checks.setdefault(k, []).append("%s: %s" % (tier, v.split(" (")[0]))
    rows.append((name, m, checks))
out = ["# Independent breaking changes", "",
       "Each directory holds `patch.diff` (apply with `git -C /repo apply <file>`, undo with",
       "`git -C /repo checkout -- .`), the sub-agent's `demo.py` (run it with a `wtpython`",
       "wrapper, see `tools/mk_worktree.sh`) and `meta.json`. The authors saw only the text of one",
       "property and a scratch worktree. `tools/seed_eval.py <name> --props ...` re-confirms a",
       "change (suite, demo with/without) and re-runs checks against it.", "",
       "| change | breaks | suite with change | demo without / with | checks (quick unless said) |",
       "|---|---|---|---|---|"]
for name, m, checks in rows:
    cs = "; ".join("%s %s" % (k, ", ".join(v)) for k, v in sorted(checks.items()))
    out.append("| `%s` | %s | %s | %s / %s | %s |" % (
        name, m.get("breaks_property"), m.get("suite_with_change", "?"),
        m.get("demo_without_change", "?"), (m.get("demo_with_change") or "?").split(":")[0], cs))
out += ["", "## What each change needs in order to manifest", ""]
for name, m, _ in rows:
    out.append("* **%s** (%s): %s. *Needs:* %s" % (name, m.get("breaks_property"), m.get("change"),
                                                 m.get("needs_to_manifest")))
    if m.get("note"):
        out.append("  *Note:* %s" % m["note"])
open(os.path.join(HERE, "seeded", "README.md"), "w").write("\n".join(out) + "\n")
print("\n".join(out[:25]))
