#!/bin/sh
# tools/suite_on.sh <root containing src/> : run the repository's unedited test suite against
# that source tree (scratch copies / candidate fixes). Prints the pytest summary line.
ROOT="$1"
rm -rf "$ROOT/tests"; cp -r /repo/tests "$ROOT/tests"
for f in setup.cfg tox.ini; do [ -f /repo/$f ] && cp /repo/$f "$ROOT/"; done
cat > "$ROOT/conftest.py" <<'PY'
import os, sys
_src = os.path.join(os.path.dirname(os.path.abspath(__file__)), 'src')
for _k in [m for m in sys.modules if m.startswith('cr.')]:
    del sys.modules[_k]
sys.path.insert(0, _src)
if 'cr' in sys.modules:
    sys.modules['cr'].__path__ = [os.path.join(_src, 'cr')]
import cr.cube
assert cr.cube.__file__.startswith(_src), cr.cube.__file__
PY
cd "$ROOT" && /venv/bin/python -m pytest -q -p no:cacheprovider -n 12 tests 2>&1 | tail -5
