"""Runtime-monitoring machinery for crunch-cube (see /verif/DESIGN.md)."""
