"""Table cases: (survey, query, transforms, constructor arguments) as plain JSON-able dicts.

`random_facets` builds the variables for a *template* such as "cat|mr", "mr|cat|cat",
"cai|cac" (categorical-array items x categories), "cai|mr|cac", "numarr|cat".
`realize(case)` turns a case into live objects: the response (fresh dict every time), the
library objects under test and the respondent-level oracle.
"""

import copy
import json

import numpy as np

from . import sim, gen

CATLIKE = ("cat", "cat_date", "text", "datetime", "binned", "logical")

TEMPLATES_1D = ["cat", "cat_date", "mr", "text", "binned", "datetime", "numarr", "logical"]
TEMPLATES_2D = [
    "cat|cat", "cat|mr", "mr|cat", "mr|mr", "cai|cac", "cac|cai", "cat|cat_date",
    "cat_date|cat", "mr|cat_date", "cat_date|mr", "cat|text", "binned|cat", "cat|datetime",
    "numarr|cat", "numarr|mr", "numarr|cat_date", "logical|mr", "cat|logical", "text|mr",
]
TEMPLATES_3D = [
    "cat|cat|cat", "cat|cat|mr", "cat|mr|cat", "cat|mr|mr", "mr|cat|cat", "mr|cat|mr",
    "mr|mr|cat", "mr|mr|mr", "cat|cai|cac", "cat|cac|cai", "mr|cai|cac", "mr|cac|cai",
    "cai|cac|cat", "cai|cac|mr", "cai|mr|cac", "cac|cat|cai", "cac|mr|cai", "cai|cat|cac",
    "cat_date|cat|cat", "cat|cat_date|mr", "text|cat|cat",
    # a numeric array grouped by two dimensions: one slice per sub-variable
    "numarr|cat|cat", "numarr|cat|mr", "numarr|mr|cat", "numarr|mr|mr",
]


def make_logical(g, N):
    v = g.cat(N, n_valid=2, n_missing=1, kind="cat", numeric="none", id_style="seq",
              reorder=False)
    v.cats = [
        {"id": 1, "name": "True", "missing": False, "numeric_value": 1, "selected": True},
        {"id": 0, "name": "False", "missing": False, "numeric_value": 0},
        {"id": -1, "name": "No Data", "missing": True, "numeric_value": None},
    ]
    v.kind = "logical"
    v.data_order = [0, 1, 2]
    return v


def random_facets(g, template, N, sizes=None, numeric="some", square=None, p_zero=0.2):
    """List of (role, var) for `template`. `sizes`: optional per-position element counts."""
    parts = template.split("|")
    facets = []
    ca = None
    for pos, p in enumerate(parts):
        size = None if sizes is None else sizes[pos]
        if square is not None:
            size = square
        if p in ("cai", "cac"):
            if ca is None:
                ni = size if p == "cai" else None
                nk = size if p == "cac" else None
                # find the partner's size
                for q, pp in enumerate(parts):
                    if pp in ("cai", "cac") and q != pos:
                        ps = (None if sizes is None else sizes[q]) if square is None else square
                        if pp == "cai":
                            ni = ps
                        else:
                            nk = ps
                ca = g.ca(N, n_items=ni, n_valid=nk, numeric=numeric)
            facets.append(("ca_items" if p == "cai" else "ca_cats", ca))
        elif p == "mr":
            facets.append(("mr", g.mr(N, n_items=size)))
        elif p == "numarr":
            facets.append(("numarr", g.numarr(N, n_items=size)))
        elif p == "logical":
            facets.append(("cat", make_logical(g, N)))
        elif p in CATLIKE:
            facets.append(("cat", g.cat(N, n_valid=size, kind=p, numeric=numeric, p_zero=p_zero)))
        else:
            raise ValueError(p)
    return facets


def entangle_some(g, facets):
    """Create structural zeros between two different variables of the query."""
    cands = [(r, v) for r, v in facets if r in ("cat", "mr")]
    if len(cands) >= 2 and g.chance(0.35):
        a, b = g.r.sample(cands, 2)
        if a[1] is not b[1]:
            g.entangle(a[0], a[1], b[0], b[1])


# -------------------------------------------------------------------------- realization


class Live:
    pass


def realize(case, cube_kwargs=None):
    """Live objects for a case. Always builds a fresh response and fresh transforms."""
    from cr.cube.cube import Cube

    L = Live()
    L.case = case
    L.spec = sim.spec_from_dict(case["spec"])
    L.response = json.loads(json.dumps(sim.build_response(L.spec, case.get("envelope"))))
    L.transforms = copy.deepcopy(case.get("transforms"))
    kw = {"transforms": L.transforms, "population": case.get("population"),
          "mask_size": case.get("mask_size", 0)}
    if cube_kwargs:
        kw.update(cube_kwargs)
    L.cube = Cube(L.response, **kw)
    L.oracle = sim.Oracle(L.spec)
    return L


def mask_size_for(pid, i):
    """Minimum base size the analysis is constructed with (hash stratum of the unit): a
    construction-time parameter that only the minimum-base mask may depend on - no statistic
    is blanked, rounded or skipped because of it."""
    from .gen import stratum

    return [0, 0, 0, 4, 15, 60][stratum(pid, i, "mask_size", 6)]


def describe(case, extra=None):
    """Short descriptor of a case for the evidence samples."""
    spec = case["spec"]
    d = {"template": case.get("template"),
         "n_respondents": len(spec["vars"][spec["facets"][0][1]].get(
             "ans", spec["vars"][spec["facets"][0][1]].get(
                 "state", spec["vars"][spec["facets"][0][1]].get("x", [])))) if spec["facets"]
         else None,
         "weighted": spec["weight"] is not None, "measures": spec["measures"],
         "dims": []}
    for role, k in spec["facets"]:
        v = spec["vars"][k]
        if v["t"] in ("cat",):
            d["dims"].append({"role": role, "kind": v["kind"],
                              "ids": [c["id"] for c in v["cats"]],
                              "missing": [c["id"] for c in v["cats"] if c.get("missing")]})
        elif v["t"] == "ca":
            d["dims"].append({"role": role, "items": len(v["items"]),
                              "cat_ids": [c["id"] for c in v["cats"]],
                              "missing": [c["id"] for c in v["cats"] if c.get("missing")]})
        else:
            d["dims"].append({"role": role, "items": len(v["items"])})
    if case.get("transforms"):
        d["transforms"] = case["transforms"]
    if extra:
        d.update(extra)
    return d


# ---------------------------------------------------------------------------- insertions


def insertable(role, var):
    """Can this facet carry subtotal insertions addressed by integer category ids?"""
    if role == "ca_cats":
        return True
    return role == "cat" and var.kind in ("cat", "cat_date", "logical")


def library_order_facets(facets):
    """Facets in the library's apparent-dimension order (numeric array first)."""
    return [f for f in facets if f[0] == "numarr"] + [f for f in facets if f[0] != "numarr"]


def attach_insertions(g, facets, transforms, which=("rows", "cols"), placement=None, **kw):
    """Put random insertions on the rows / columns facets. Returns labels of what was done.

    `transforms` (dict) is filled in place for 'transform' placement; 'view' placement sets
    the variable's view insertions. kw is passed to gen.gen_insertions.
    """
    lf = library_order_facets(facets)
    nd = len(lf)
    targets = {}
    if nd == 1:
        targets["rows"] = lf[0]
    elif nd >= 2:
        targets["rows"], targets["cols"] = lf[nd - 2], lf[nd - 1]
    done = []
    for name in which:
        if name not in targets:
            continue
        role, var = targets[name]
        if not insertable(role, var):
            continue
        cats = var.cats if role == "ca_cats" else var.axis_cats
        valid_ids = [c["id"] for c in cats if not c.get("missing")]
        missing_ids = [c["id"] for c in cats if c.get("missing")]
        if not valid_ids:
            continue
        pl = placement or g.pick(["view", "view", "transform", "both"])
        key = "rows_dimension" if name == "rows" else "columns_dimension"
        if pl in ("view", "both"):
            var.view_insertions = gen.gen_insertions(g, valid_ids, missing_ids, **kw)
        if pl in ("transform", "both"):
            transforms.setdefault(key, {})["insertions"] = gen.gen_insertions(
                g, valid_ids, missing_ids, **kw)
        done.append("%s:%s" % (name, pl))
    return done


def add_total_subtotals(facets, transforms, which=("rows", "cols")):
    """Append a subtotal of *all* valid categories to the rows / columns insertions.

    Its proportion in its own direction is exactly 1 and its variance exactly 0: the place
    where sums taken in different orders show their last-bit differences.
    """
    lf = library_order_facets(facets)
    nd = len(lf)
    targets = {"rows": lf[0]} if nd == 1 else {"rows": lf[nd - 2], "cols": lf[nd - 1]}
    done = []
    for name in which:
        if name not in targets:
            continue
        role, var = targets[name]
        if not insertable(role, var):
            continue
        cats = var.cats if role == "ca_cats" else var.axis_cats
        valid_ids = [c["id"] for c in cats if not c.get("missing")]
        if not valid_ids:
            continue
        key = "rows_dimension" if name == "rows" else "columns_dimension"
        dd = transforms.setdefault(key, {})
        cur = list(dd.get("insertions") or (var.view_insertions or []))
        cur.append({"function": "subtotal", "name": "everyone", "anchor": "bottom",
                    "args": list(valid_ids), "id": 77})
        dd["insertions"] = cur
        done.append(name)
    return done


def weights_exact(spec):
    """True when every weight is a multiple of 1/8 (sums are exact in binary floating point)."""
    w = spec.weight
    return w is None or not bool(np.any((np.asarray(w, dtype=float) * 8) % 1 != 0))


def sums_exact(spec):
    """True when every sum of weights is exact in binary floating point whatever the order of
    summation: all weights are integer multiples of one power of two q and their total is
    below 2^53 q (covers the dyadic modes incl. 'scales' and 'tiny', not 'float')."""
    import math

    w = spec.weight
    if w is None:
        return True
    w = [abs(float(x)) for x in np.asarray(w, dtype=float) if x != 0]
    if not w:
        return True
    lows = []
    for x in w:
        m, e = math.frexp(x)
        mi = int(m * (1 << 53))
        lows.append(e - 53 + (mi & -mi).bit_length() - 1)
    q = min(lows)
    return sum(w) < 2.0 ** (53 + q)


def add_first_element_difference(g, facets, transforms, which=("rows", "cols")):
    """Append a difference whose only subtrahend is the *first* valid category (offset 0 among
    the valid elements: `any([0])` is False) and whose addends are other categories."""
    lf = library_order_facets(facets)
    nd = len(lf)
    targets = {"rows": lf[0]} if nd == 1 else {"rows": lf[nd - 2], "cols": lf[nd - 1]}
    done = []
    for name in which:
        if name not in targets:
            continue
        role, var = targets[name]
        if not insertable(role, var):
            continue
        cats = var.cats if role == "ca_cats" else var.axis_cats
        valid_ids = [c["id"] for c in cats if not c.get("missing")]
        if len(valid_ids) < 2:
            continue
        key = "rows_dimension" if name == "rows" else "columns_dimension"
        dd = transforms.setdefault(key, {})
        cur = list(dd.get("insertions") or (var.view_insertions or []))
        others = valid_ids[1:]
        cur.append({"function": "subtotal", "name": "minus first", "anchor": "bottom",
                    "kwargs": {"positive": g.r.sample(others, g.r.randint(1, min(2, len(others)))),
                               "negative": [valid_ids[0]]}, "id": 78})
        dd["insertions"] = cur
        done.append(name)
    return done
