"""Command line of ./check."""

import argparse
import os
import sys


def main(argv=None):
    ap = argparse.ArgumentParser(prog="check")
    ap.add_argument("pid")
    ap.add_argument("--tier", default=os.environ.get("VERIF_TIER", "quick"),
                    choices=["quick", "thorough"])
    ap.add_argument("--seed", type=int, default=int(os.environ.get("VERIF_SEED", "0")))
    ap.add_argument("--replay", default=None)
    ap.add_argument("--jobs", type=int, default=None)
    a = ap.parse_args(argv)
    from . import harness

    return harness.run_check(a.pid.upper(), a.tier, a.seed, a.jobs, a.replay)


if __name__ == "__main__":
    sys.exit(main())
