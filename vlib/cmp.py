"""Comparison helpers: exact / tolerant array equality with NaN and inf patterns."""

import math

import numpy as np

RTOL = 1e-9
ATOL = 1e-12


def as_float_array(v):
    try:
        return np.asarray(v, dtype=float)
    except Exception:
        return None


def same(got, exp, exact=False, rtol=RTOL, atol=ATOL):
    """(ok, detail). NaN positions and the sign of infinities must agree exactly."""
    g = as_float_array(got)
    e = as_float_array(exp)
    if g is None or e is None:
        return (False, {"why": "not numeric", "got": repr(got)[:300], "exp": repr(exp)[:300]})
    if g.shape != e.shape:
        return (False, {"why": "shape", "got_shape": list(g.shape), "exp_shape": list(e.shape),
                        "got": _short(g), "exp": _short(e)})
    gn, en = np.isnan(g), np.isnan(e)
    if not np.array_equal(gn, en):
        idx = np.argwhere(gn != en)[0].tolist()
        return (False, {"why": "nan pattern", "at": idx, "got": _short(g), "exp": _short(e)})
    gi, ei = np.isinf(g), np.isinf(e)
    if not np.array_equal(gi, ei) or not np.array_equal(np.sign(g[gi]), np.sign(e[ei])):
        return (False, {"why": "inf pattern", "got": _short(g), "exp": _short(e)})
    m = ~(gn | gi)
    if exact:
        ok = np.array_equal(g[m], e[m])
    else:
        ok = np.allclose(g[m], e[m], rtol=rtol, atol=atol)
    if ok:
        return (True, None)
    d = np.abs(np.where(m, g, 0) - np.where(m, e, 0))
    idx = np.unravel_index(int(np.argmax(d)), d.shape) if d.ndim else ()
    return (False, {"why": "value", "at": list(map(int, idx)),
                    "got_at": float(g[idx]) if d.ndim else float(g),
                    "exp_at": float(e[idx]) if d.ndim else float(e),
                    "got": _short(g), "exp": _short(e)})


def _short(a, limit=60):
    flat = np.asarray(a).ravel()
    vals = [None if (isinstance(x, float) and math.isnan(x)) else round(float(x), 10)
            for x in flat[:limit].tolist()]
    return {"shape": list(np.asarray(a).shape), "values": vals}


def scalar_same(got, exp, exact=False, rtol=RTOL, atol=ATOL):
    if got is None or exp is None:
        return (got is None and exp is None, {"got": repr(got), "exp": repr(exp)})
    return same(np.asarray(got, dtype=float), np.asarray(exp, dtype=float), exact, rtol, atol)
