"""W3: the repository's own fixture responses as a workload (DESIGN.md 2.6).

Real payloads contribute shapes the simulator does not produce (scorecards / fused
variables, derived MR items, odd metadata). No ground truth exists for them, so only the
relational and history monitors use them (C05, C18): random *legal* display transforms are
put on top of whatever the fixture carries.
"""

import glob
import json
import os

from . import env

_cache = {}


def fixtures_root():
    p = os.path.join(env.REPO_ROOT, "tests", "fixtures")
    return p if os.path.isdir(p) else "/repo/tests/fixtures"


def fixture_paths():
    """Sorted relative paths of the parseable cube-response fixtures."""
    if "paths" in _cache:
        return _cache["paths"]
    root = fixtures_root()
    out = []
    for f in sorted(glob.glob(os.path.join(root, "**", "*.json"), recursive=True)):
        try:
            with open(f) as fh:
                d = json.load(fh)
        except Exception:
            continue
        d = d.get("value", d) if isinstance(d, dict) else None
        if not isinstance(d, dict) or "result" not in d or "dimensions" not in d["result"]:
            continue
        out.append(os.path.relpath(f, root))
    _cache["paths"] = out
    return out


def load(rel):
    with open(os.path.join(fixtures_root(), rel)) as fh:
        return json.load(fh)


def random_display_transforms(g, response):
    """Order / hide / prune instructions that are legal for this response's last two dims."""
    from cr.cube.cube import Cube

    cube = Cube(json.loads(json.dumps(response)))
    dims = cube.dimensions
    nd = len(dims)
    tr = {}
    if nd == 0:
        return tr
    targets = [("rows_dimension", dims[0])] if nd == 1 else [
        ("rows_dimension", dims[-2]), ("columns_dimension", dims[-1])]
    for key, dim in targets:
        ids = list(dim.element_ids)
        if not ids or any(i is None for i in ids) or len(set(map(str, ids))) != len(ids):
            continue  # a fixture without usable element ids: nothing to refer to
        dd = {}
        r = g.r
        if r.random() < 0.6:
            k = r.randint(1, max(1, len(ids) - 1))
            dd["elements"] = {str(e): {"hide": True} for e in r.sample(ids, min(k, len(ids)))}
        if r.random() < 0.35:
            dd["prune"] = True
        kind = r.choice(["none", "explicit", "explicit", "label", "opposing", "payload_order"])
        if kind == "explicit":
            lst = r.sample(ids, r.randint(0, len(ids)))
            if lst and r.random() < 0.3:
                lst.append(lst[0])
            dd["order"] = {"type": "explicit", "element_ids": lst}
        elif kind == "label":
            od = {"type": "label", "direction": r.choice(["ascending", "descending"])}
            if r.random() < 0.4:
                od["fixed"] = {"top": r.sample(ids, 1), "bottom": r.sample(ids, 1)}
            dd["order"] = od
        elif kind == "opposing" and nd >= 2:
            other = dims[-1] if key == "rows_dimension" else dims[-2]
            oids = list(other.element_ids)
            if oids:
                dd["order"] = {"type": "opposing_element", "element_id": r.choice(oids),
                               "measure": r.choice(["count_unweighted", "count_weighted",
                                                    "table_percent"])}
        elif kind == "payload_order":
            dd["order"] = {"type": "payload_order"}
        if dd:
            tr[key] = dd
    return tr


def public_coords(part, axis):
    """Canonical identity of every display position from the partition's own order.

    ("e", idx, idx) for a base element, ("s", idx, idx) for an insertion: the signed index
    refers to the same element / insertion list in the baseline and the transformed run,
    because display transforms do not touch the insertion list.
    """
    from .probe import read

    order = read(part, "row_order" if axis == 0 else "column_order")
    if not order.ok:
        return None
    return [("e", int(e), int(e)) if int(e) >= 0 else ("s", int(e), int(e))
            for e in order.value]


# ------------------------------------------------------------------ intrinsic relations (W3)


RULE_SUFFIX = (
    " Plus W3: every parseable cube response under tests/fixtures (about 270 real payloads: "
    "scorecards, fused variables, derived items, numeric arrays, 3-D cubes) with random legal "
    "transforms (hide / prune / order, subtotal and difference insertions on categorical "
    "dimensions, pairwise settings), read under the intrinsic relations of this property "
    "(vlib/intrinsic.py) - relations among the library's own outputs that need no ground "
    "truth; half of the quick-tier cases carry no transforms at all.")
TECHNIQUE_SUFFIX = "; intrinsic relations among public outputs on the repository's fixture corpus"
INSERTABLE = ("CAT", "CA_CAT", "CAT_DATE")
ALPHAS = [None, [0.05], [0.05, 0.2], [0.4, 0.01], [0.1]]


def random_full_transforms(g, response):
    """Display transforms plus insertions on categorical dimensions and pairwise settings."""
    from cr.cube.cube import Cube
    from . import gen

    tr = random_display_transforms(g, response) if g.chance(0.6) else {}
    cube = Cube(json.loads(json.dumps(response)))
    dims = cube.dimensions
    nd = len(dims)
    if nd:
        targets = [("rows_dimension", dims[0])] if nd == 1 else [
            ("rows_dimension", dims[-2]), ("columns_dimension", dims[-1])]
        for key, dim in targets:
            if dim.dimension_type.name not in INSERTABLE or not g.chance(0.6):
                continue
            valid = [int(e) for e in dim.valid_elements.element_ids]
            missing = [int(e.element_id) for e in dim.all_elements if e.missing]
            if not valid:
                continue
            tr.setdefault(key, {})["insertions"] = gen.gen_insertions(
                g, valid, missing, hide_some=False, disjoint=True)
    alpha = g.pick(ALPHAS)
    pw = {}
    if alpha is not None:
        pw["alpha"] = alpha
    ol = g.pick([None, True, False])
    if ol is not None:
        pw["only_larger"] = ol
    if pw:
        tr["pairwise_indices"] = pw
    return tr


def units(tier, seed, reps=None):
    reps = reps if reps is not None else (1 if tier == "quick" else 12)
    n = len(fixture_paths())
    return [{"corpus": k, "rep": rep, "seed": seed} for rep in range(reps) for k in range(n)]


def make_case(pid, unit):
    from . import gen

    rel = fixture_paths()[unit["corpus"]]
    g = gen.G("%s/corpus/%s/%s/%s" % (pid, unit["seed"], unit["corpus"], unit["rep"]))
    plain = unit["rep"] == 0 and unit["corpus"] % 2 == 0
    return {"fixture": rel, "transforms": {} if plain else random_full_transforms(g, load(rel)),
            "population": 1000, "indices_first": g.chance(0.5),
            "mask_size": g.pick([0, 3, 10, 50, 200])}


def _pairwise_ctx(tr):
    v = (tr.get("pairwise_indices") or {}).get("alpha")
    if not v:
        a1, a2 = 0.05, None
    elif isinstance(v, float):
        a1, a2 = v, None
    elif len(v) == 1:
        a1, a2 = v[0], None
    else:
        a1, a2 = tuple(sorted(v[:2]))
    ol = (tr.get("pairwise_indices") or {}).get("only_larger", True) is not False
    return a1, a2, ol


def check_case(pid, case):
    """Intrinsic relations of property `pid` on every partition of a fixture cube."""
    import copy

    from cr.cube.cube import Cube
    from . import intrinsic
    from .harness import CaseResult
    from .probe import read

    res = CaseResult()
    res.classes.append("corpus")
    resp = load(case["fixture"])
    tr = case.get("transforms") or {}
    res.descriptor = {"fixture": case["fixture"], "transforms": tr}
    cube = Cube(json.loads(json.dumps(resp)), transforms=copy.deepcopy(tr),
                population=case.get("population"), mask_size=case.get("mask_size", 0))
    parts = read(cube, "partitions")
    if not parts.ok:
        base = read(Cube(json.loads(json.dumps(resp))), "partitions")
        if base.ok:
            # only the transformed cube fails: C05's corpus monitor owns that question
            res.observations["corpus partitions raise only with transforms: %s" %
                             parts.exc_name] += 1
        res.skipped["corpus_partitions_unreadable"] += 1
        return res
    a1, a2, ol = _pairwise_ctx(tr)
    display = any((tr.get(k) or {}).get(x) for k in ("rows_dimension", "columns_dimension")
                  for x in ("elements", "prune"))
    ctx = {"population": case.get("population"), "alpha": a1, "alpha_alt": a2,
           "only_larger": ol, "indices_first": case.get("indices_first"),
           "display_transforms": display, "mask_size": case.get("mask_size", 0)}
    before = res.comparisons
    for part in parts.value:
        intrinsic.run(pid, res, part, ctx)
    res.nontrivial = res.comparisons > before
    if tr:
        res.classes.append("corpus_transformed")
    return res


# ------------------------------------------------------------- transposition of real payloads


def transposed_response(response):
    """The response with its two (logical) dimensions exchanged and every data array
    transposed accordingly, or None when the payload is not a plain 2-D cube (numeric arrays
    add a pseudo-dimension, overlap / covariance measures carry extra axes)."""
    import numpy as np
    from cr.cube.cube import Cube

    env_ = response if "result" in response else response.get("value")
    if not isinstance(env_, dict) or "result" not in env_:
        return None
    r = env_["result"]
    if "margins" in r or any(m in (r.get("measures") or {}) for m in (
            "overlap", "valid_overlap", "covariance")):
        return None
    cube = Cube(json.loads(json.dumps(response)))
    try:
        if cube._numeric_array_dimension:
            return None
        all_dims = list(cube._all_dimensions)
    except Exception:
        return None
    raw = r["dimensions"]
    if len(all_dims) != len(raw):
        return None
    groups, k = [], 0
    while k < len(all_dims):
        if all_dims[k].dimension_type.name == "MR_SUBVAR" and k + 1 < len(all_dims) and \
                all_dims[k + 1].dimension_type.name == "MR_CAT":
            groups.append([k, k + 1])
            k += 2
        else:
            groups.append([k])
            k += 1
    if len(groups) != 2:
        return None
    shape = [len(d.all_elements) for d in all_dims]
    perm = groups[1] + groups[0]
    n = int(np.prod(shape))

    def tdata(data):
        if not isinstance(data, list) or len(data) != n:
            raise ValueError("unexpected data length")
        arr = np.empty(n, dtype=object)
        for i, x in enumerate(data):
            arr[i] = x
        return arr.reshape(shape).transpose(perm).reshape(-1).tolist()

    out = json.loads(json.dumps(response))
    r2 = (out if "result" in out else out["value"])["result"]
    try:
        r2["dimensions"] = [raw_ for g_ in (groups[1], groups[0]) for raw_ in
                            [json.loads(json.dumps(raw[i])) for i in g_]]
        r2["counts"] = tdata(r["counts"])
        for name, m in (r.get("measures") or {}).items():
            r2["measures"][name]["data"] = tdata(m["data"])
    except ValueError:
        return None
    return out


# --------------------------------------------------------------- slicing of real 3-D payloads


def table_slices(response):
    """[(k, 2-D response)] : for every valid element k of the table (first) dimension of a 3-D
    payload, the 2-D payload obtained by slicing every data array at that element (for an MR
    table: at item k's 'selected' entry). None when the payload is not a plain 3-D cube."""
    import numpy as np
    from cr.cube.cube import Cube

    env_ = response if "result" in response else response.get("value")
    if not isinstance(env_, dict) or "result" not in env_:
        return None
    r = env_["result"]
    if "margins" in r or any(m in (r.get("measures") or {}) for m in (
            "overlap", "valid_overlap", "covariance")):
        return None
    cube = Cube(json.loads(json.dumps(response)))
    try:
        if cube._numeric_array_dimension or len(cube.dimension_types) != 3:
            return None
        all_dims = list(cube._all_dimensions)
    except Exception:
        return None
    raw = r["dimensions"]
    if len(all_dims) != len(raw):
        return None
    t0 = all_dims[0].dimension_type.name
    shape = [len(d.all_elements) for d in all_dims]
    n = int(np.prod(shape))
    if t0 == "MR_SUBVAR":
        if len(all_dims) < 2 or all_dims[1].dimension_type.name != "MR_CAT":
            return None
        sel = [i for i, e in enumerate(raw[1]["type"]["categories"]) if e.get("selected")]
        if len(sel) != 1:
            return None
        drop = 2
    elif t0 in ("CAT", "CAT_DATE", "TEXT", "DATETIME", "BINNED_NUMERIC", "LOGICAL"):
        sel, drop = None, 1
    else:
        return None  # CA tables: the CA categories would change their dimension type
    out = []
    for k, raw_idx in enumerate(all_dims[0].valid_elements.element_idxs):
        idx = (int(raw_idx),) if sel is None else (int(raw_idx), sel[0])

        def sdata(data):
            if not isinstance(data, list) or len(data) != n:
                raise ValueError("unexpected data length")
            arr = np.empty(n, dtype=object)
            for i, x in enumerate(data):
                arr[i] = x
            return arr.reshape(shape)[idx].reshape(-1).tolist()

        resp2 = json.loads(json.dumps(response))
        r2 = (resp2 if "result" in resp2 else resp2["value"])["result"]
        try:
            r2["dimensions"] = json.loads(json.dumps(raw[drop:]))
            r2["counts"] = sdata(r["counts"])
            for name, m in (r.get("measures") or {}).items():
                r2["measures"][name]["data"] = sdata(m["data"])
        except ValueError:
            return None
        out.append((k, resp2))
    return out
