"""W3: the repository's own fixture responses as a workload (DESIGN.md 2.6).

Real payloads contribute shapes the simulator does not produce (scorecards / fused
variables, derived MR items, odd metadata). No ground truth exists for them, so only the
relational and history monitors use them (C05, C18): random *legal* display transforms are
put on top of whatever the fixture carries.
"""

import glob
import json
import os

from . import env

_cache = {}


def fixtures_root():
    p = os.path.join(env.REPO_ROOT, "tests", "fixtures")
    return p if os.path.isdir(p) else "/repo/tests/fixtures"


def fixture_paths():
    """Sorted relative paths of the parseable cube-response fixtures."""
    if "paths" in _cache:
        return _cache["paths"]
    root = fixtures_root()
    out = []
    for f in sorted(glob.glob(os.path.join(root, "**", "*.json"), recursive=True)):
        try:
            with open(f) as fh:
                d = json.load(fh)
        except Exception:
            continue
        d = d.get("value", d) if isinstance(d, dict) else None
        if not isinstance(d, dict) or "result" not in d or "dimensions" not in d["result"]:
            continue
        out.append(os.path.relpath(f, root))
    _cache["paths"] = out
    return out


def load(rel):
    with open(os.path.join(fixtures_root(), rel)) as fh:
        return json.load(fh)


def random_display_transforms(g, response):
    """Order / hide / prune instructions that are legal for this response's last two dims."""
    from cr.cube.cube import Cube

    cube = Cube(json.loads(json.dumps(response)))
    dims = cube.dimensions
    nd = len(dims)
    tr = {}
    if nd == 0:
        return tr
    targets = [("rows_dimension", dims[0])] if nd == 1 else [
        ("rows_dimension", dims[-2]), ("columns_dimension", dims[-1])]
    for key, dim in targets:
        ids = list(dim.element_ids)
        if not ids:
            continue
        dd = {}
        r = g.r
        if r.random() < 0.6:
            k = r.randint(1, max(1, len(ids) - 1))
            dd["elements"] = {str(e): {"hide": True} for e in r.sample(ids, min(k, len(ids)))}
        if r.random() < 0.35:
            dd["prune"] = True
        kind = r.choice(["none", "explicit", "explicit", "label", "opposing", "payload_order"])
        if kind == "explicit":
            lst = r.sample(ids, r.randint(0, len(ids)))
            if lst and r.random() < 0.3:
                lst.append(lst[0])
            dd["order"] = {"type": "explicit", "element_ids": lst}
        elif kind == "label":
            od = {"type": "label", "direction": r.choice(["ascending", "descending"])}
            if r.random() < 0.4:
                od["fixed"] = {"top": r.sample(ids, 1), "bottom": r.sample(ids, 1)}
            dd["order"] = od
        elif kind == "opposing" and nd >= 2:
            other = dims[-1] if key == "rows_dimension" else dims[-2]
            oids = list(other.element_ids)
            if oids:
                dd["order"] = {"type": "opposing_element", "element_id": r.choice(oids),
                               "measure": r.choice(["count_unweighted", "count_weighted",
                                                    "table_percent"])}
        elif kind == "payload_order":
            dd["order"] = {"type": "payload_order"}
        if dd:
            tr[key] = dd
    return tr


def public_coords(part, axis):
    """Canonical identity of every display position from the partition's own order.

    ("e", idx, idx) for a base element, ("s", idx, idx) for an insertion: the signed index
    refers to the same element / insertion list in the baseline and the transformed run,
    because display transforms do not touch the insertion list.
    """
    from .probe import read

    order = read(part, "row_order" if axis == 0 else "column_order")
    if not order.ok:
        return None
    return [("e", int(e), int(e)) if int(e) >= 0 else ("s", int(e), int(e))
            for e in order.value]
