"""Locate the tree under test, make `cr.cube` importable from it, describe it.

The source root is /repo unless VERIF_REPO is set (self-validation against a scratch copy
only, see DESIGN.md 2). Nothing here imports cr.cube at module import time.
"""

import hashlib
import os
import subprocess
import sys

VERIF_ROOT = os.path.dirname(os.path.dirname(os.path.abspath(__file__)))
REPO_ROOT = os.path.abspath(os.environ.get("VERIF_REPO", "/repo"))
SRC_ROOT = os.path.join(REPO_ROOT, "src")
DEPS_DIR = os.path.join(VERIF_ROOT, ".deps")
WHEELS = "/opt/veriftools/wheels"


def activate():
    """Put the tree under test first on sys.path and assert cr.cube comes from it."""
    if SRC_ROOT not in sys.path:
        sys.path.insert(0, SRC_ROOT)
    # drop any already imported copy (e.g. the editable install resolving elsewhere)
    for name in [m for m in sys.modules if m == "cr" or m.startswith("cr.")]:
        mod = sys.modules[name]
        f = getattr(mod, "__file__", None) or ""
        if f and not os.path.abspath(f).startswith(SRC_ROOT):
            del sys.modules[name]
    # `cr` is a namespace package pre-created by the editable install's nspkg .pth; point it
    # at the tree under test so a VERIF_REPO override really takes effect.
    crmod = sys.modules.get("cr")
    if crmod is not None and hasattr(crmod, "__path__"):
        try:
            crmod.__path__ = [os.path.join(SRC_ROOT, "cr")]
        except Exception:
            pass
    import cr.cube  # noqa

    f = os.path.abspath(cr.cube.__file__)
    if not f.startswith(SRC_ROOT + os.sep):
        raise RuntimeError("cr.cube imported from %s, expected under %s" % (f, SRC_ROOT))
    os.environ.setdefault("CRCUBE_VERIF", "1")
    return cr.cube


def ensure_deps():
    """Install icontract offline into the git-ignored .deps (idempotent). Returns bool."""
    marker = os.path.join(DEPS_DIR, "icontract")
    if not os.path.isdir(marker):
        try:
            subprocess.run(
                [
                    sys.executable, "-m", "pip", "install", "--quiet", "--no-index",
                    "--find-links", WHEELS, "--target", DEPS_DIR, "icontract",
                ],
                check=True, stdout=subprocess.DEVNULL, stderr=subprocess.DEVNULL,
                timeout=300,
            )
        except Exception:
            return False
    if DEPS_DIR not in sys.path:
        sys.path.append(DEPS_DIR)
    try:
        import icontract  # noqa

        return True
    except Exception:
        return False


def tree_info():
    """HEAD, dirty flag and a hash of the python sources of the tree under test."""
    h = hashlib.sha256()
    n = 0
    base = os.path.join(SRC_ROOT, "cr", "cube")
    for dirpath, dirnames, filenames in sorted(os.walk(base)):
        dirnames.sort()
        for fn in sorted(filenames):
            if fn.endswith(".py"):
                p = os.path.join(dirpath, fn)
                h.update(os.path.relpath(p, base).encode())
                with open(p, "rb") as fh:
                    h.update(fh.read())
                n += 1
    head = "unknown"
    dirty = None
    try:
        head = subprocess.run(
            ["git", "-C", REPO_ROOT, "rev-parse", "HEAD"], capture_output=True,
            text=True, timeout=20,
        ).stdout.strip() or "unknown"
        dirty = bool(
            subprocess.run(
                ["git", "-C", REPO_ROOT, "status", "--porcelain", "--", "src"],
                capture_output=True, text=True, timeout=20,
            ).stdout.strip()
        )
    except Exception:
        pass
    return {
        "root": REPO_ROOT, "head": head, "dirty": dirty,
        "source_sha256": h.hexdigest(), "source_files": n,
    }
