"""Expected values of a partition's measures from the respondent-level oracle.

`SliceView(L, t, part)` resolves what each display row / column of the partition *is* (a valid
base element or a subtotal with addends / subtrahends) from the order the partition itself
reports, so a value monitor stays independent of ordering correctness (C07/C08 own that), and
computes expected matrices cell by cell from `sim.Oracle`.
"""

import math

import numpy as np
from scipy.special import ndtr

from . import spec_order
from .probe import read

Z_975 = 1.959964
NAN = float("nan")


def dim_ids(oracle, d):
    """(valid element ids in payload order, view insertions, kind) for oracle dimension d."""
    role, var = oracle.facets[d]
    if role in ("cat", "ca_cats"):
        ids = [c["id"] for c in var.valid_cats]
        if getattr(var, "kind", "") == "datetime":
            ids = [c["value"] for c in var.valid_cats]
        return ids, getattr(var, "view_insertions", None), "CAT"
    if role == "mr":
        return [it["alias"] for it in var.items], None, "MR"
    return [it["alias"] for it in var.items], None, "ARR"


def resolved_subtotals(oracle, d, tdim):
    """Specification-resolved subtotals of dimension d under transforms dict `tdim`."""
    ids, view_ins, kind = dim_ids(oracle, d)
    if kind != "CAT":
        return []
    tdim = tdim or {}
    if "insertions" in tdim:
        return spec_order.valid_subtotals(tdim["insertions"], ids, from_view=False)
    return spec_order.valid_subtotals(view_ins or [], ids, from_view=True)


def prelude(L, part, p=0.4, k=12):
    """In a fraction of the cases (decided by the case itself, so replays agree) read a few
    random public properties first: what a reference monitor then observes must not depend on
    what was read before (a value cached by one measure and shared with another, C18)."""
    import json
    import random
    import zlib

    from . import partcmp

    r = random.Random(zlib.crc32(json.dumps(L.case, sort_keys=True, default=str).encode()))
    if r.random() >= p:
        return 0
    names = partcmp.public_names(part)
    picked = r.sample(names, min(k, len(names)))
    for name in picked:
        read(part, name)
    return len(picked)


class SliceView:
    """What the display rows/columns of a 2-D partition are, and what they should show."""

    def __init__(self, L, t, part, transforms=None):
        o = L.oracle
        self.o = o
        self.part = part
        self.prelude_reads = prelude(L, part)
        nd = o.ndim
        self.R, self.C = nd - 2, nd - 1
        self.fixed = {0: t} if nd == 3 else {}
        tr = transforms if transforms is not None else (L.case.get("transforms") or {})
        self.row_subs = resolved_subtotals(o, self.R, tr.get("rows_dimension"))
        self.col_subs = resolved_subtotals(o, self.C, tr.get("columns_dimension"))
        self.row_order = [int(x) for x in read(part, "row_order").value]
        self.col_order = [int(x) for x in read(part, "column_order").value]
        self.rows = [self._elem(e, self.row_subs) for e in self.row_order]
        self.cols = [self._elem(e, self.col_subs) for e in self.col_order]
        self.weighted = L.spec.weight is not None
        w = L.spec.weight
        # weights that are not multiples of 1/8: sums depend on their order in the last bits
        self.inexact = w is not None and bool(np.any((np.asarray(w, dtype=float) * 8) % 1 != 0))
        self.valid_count_mode = o.xok is not None or L.spec.numarr is not None
        self.row_type, self.col_type = o.typestr(self.R), o.typestr(self.C)
        self.row_role, self.col_role = o.facets[self.R][0], o.facets[self.C][0]

    @staticmethod
    def _elem(e, subs):
        if e >= 0:
            return e
        s = subs[e + len(subs)]
        return ("sub", tuple(s["addends"]), tuple(s["subtrahends"]))

    # ------------------------------------------------------------------ helpers
    @staticmethod
    def is_sub(e):
        return isinstance(e, tuple)

    @staticmethod
    def is_diff(e):
        return isinstance(e, tuple) and len(e[2]) > 0

    def sel(self, r, c):
        s = dict(self.fixed)
        s[self.R] = r
        s[self.C] = c
        return s

    def matrix(self, fn):
        out = np.empty((len(self.rows), len(self.cols)))
        for i, r in enumerate(self.rows):
            for j, c in enumerate(self.cols):
                out[i, j] = fn(r, c)
        return out

    # ------------------------------------------------------------------ first order
    def count(self, r, c, weighted=True):
        if self.valid_count_mode and (self.is_diff(r) or self.is_diff(c)):
            return NAN
        if self.is_diff(r) and self.is_diff(c):
            return NAN
        return self.o.count(self.sel(r, c), weighted and self.weighted)

    def base(self, r, c, direction, weighted=True):
        free = {"row": (self.C,), "col": (self.R,), "table": (self.R, self.C)}[direction]
        return self.o.base(self.sel(r, c), free, weighted and self.weighted)

    def counts(self, weighted=True):
        return self.matrix(lambda r, c: self.count(r, c, weighted))

    def bases(self, direction, weighted=True):
        return self.matrix(lambda r, c: self.base(r, c, direction, weighted))

    def proportion(self, r, c, direction):
        n = self.count(r, c, True)
        b = self.base(r, c, direction, True)
        if math.isnan(n) or math.isnan(b) or b == 0:
            return NAN
        return n / b

    def proportions(self, direction):
        return self.matrix(lambda r, c: self.proportion(r, c, direction))


def zscore(n, rb, cb, tb):
    """Adjusted standardized residual from a cell's own bases."""
    with np.errstate(divide="ignore", invalid="ignore"):
        e = rb * cb / tb
        v = e * (1 - rb / tb) * (1 - cb / tb)
        return (n - e) / np.sqrt(v)


def pval_from_z(z):
    return 2 * (1 - ndtr(np.abs(z)))


# ------------------------------------------------------------------ respondent-level variance


def _union_mask(o, sel, free, dims_fixed):
    """Union over the addends of fixed subtotal elements of the eligibility mask."""
    import itertools

    choices = []
    for d in dims_fixed:
        e = sel[d]
        choices.append(list(e[1]) if isinstance(e, tuple) else [e])
    m = np.zeros(o.N, dtype=bool)
    for combo in itertools.product(*choices):
        full = dict(sel)
        for d, b in zip(dims_fixed, combo):
            full[d] = b
        for d in free:
            full[d] = o._first_base(sel.get(d, 0))
        m |= o.mask(full, free)
    return m


def indicator(o, sel):
    """Per-respondent signed membership (+1 addends, -1 subtrahends, 0 otherwise) of a cell."""
    import itertools

    dims = sorted(sel)
    terms = [o._terms(sel[d]) for d in dims]
    ind = np.zeros(o.N)
    for combo in itertools.product(*terms):
        sg = 1
        full = {}
        for d, (s, b) in zip(dims, combo):
            sg *= s
            full[d] = b
        ind += sg * o.mask(full).astype(float)
    return ind


def cell_variance(V, r, c, direction):
    """(variance, weighted base, proportion) of the signed indicator over the base."""
    o = V.o
    sel = V.sel(r, c)
    free = {"row": (V.C,), "col": (V.R,), "table": (V.R, V.C)}[direction]
    fixed = [d for d in sel if d not in free]
    for d in fixed:
        if isinstance(sel[d], tuple) and sel[d][2]:
            return NAN, NAN, NAN
    if V.is_diff(r) and V.is_diff(c):
        return NAN, NAN, NAN
    bm = _union_mask(o, sel, free, fixed)
    w = o.w[bm]
    W = float(w.sum())
    if W == 0:
        return NAN, W, NAN
    ind = indicator(o, sel)[bm]
    p = float((w * ind).sum() / W)
    var = float((w * (ind - p) ** 2).sum() / W)
    return var, W, p
