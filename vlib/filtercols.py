"""Multi-table with a text variable on the rows and single-column filter cubes (W1, hand-built).

The back end leaves out of a filter cube's response the row labels nobody in the filter gave;
`CubeSet` re-aligns ("augments") such a cube with the summary cube's labels. This builds the
responses from respondent-level data and states what each partition of the set must show:
all the summary labels in the summary order, the count of each label among the filter's
respondents (zero for the absent ones), the filter's valid base for every row, and a
minimum-base mask that is true exactly where that base is below the threshold the caller
gave to `CubeSet`.

Used by C06 (alignment of the partition set, values) and C02 (bases and mask).
"""

import json

import numpy as np

from .harness import CaseResult
from .probe import read


def make_case(g, tag):
    r = g.r
    n = r.randint(3, 7)
    labels = ["lab %s" % chr(65 + k) for k in range(n)]
    N = r.choice([8, 14, 25, 40])
    ans = [(-1 if r.random() < 0.15 else r.randrange(n)) for _ in range(N)]
    nf = r.randint(1, 3)
    filters = []
    for _ in range(nf):
        keep_labels = set(r.sample(range(n), r.randint(1, n)))  # labels that can occur at all
        p = r.choice([0.3, 0.6, 0.9])
        filters.append([bool(a == -1 and r.random() < p) or bool(
            a in keep_labels and r.random() < p) for a in ans])
    weights = None if r.random() < 0.4 else [r.randrange(0, 25) / 8.0 for _ in range(N)]
    import zlib

    h = zlib.crc32(repr((labels, ans[:8], N)).encode()) >> 2
    return {"mode": "filtercols", "labels": labels, "ans": ans, "filters": filters,
            # where the missing element sits in the summary and in each filter cube
            "miss_pos": [[1.0, 0.0, 0.5, 1.0][(h >> (2 * k)) % 4] for k in range(nf + 1)],
            "weights": weights, "min_base": r.choice([0, 3, 6, 12, 30]), "population": 1000,
            "tag": tag}


def _dim(labels_present, miss_at):
    """Element ids are positions in the payload; the missing element sits at `miss_at`
    (text enumerations usually end with it, nothing says they must)."""
    els = [{"missing": False, "value": lab} for lab in labels_present]
    els.insert(miss_at, {"missing": True, "value": {"?": -1}})
    for k, e in enumerate(els):
        e["id"] = k
    return {"derived": False,
            "references": {"alias": "txt", "name": "Open end", "description": "verbatim"},
            "type": {"class": "enum", "elements": els,
                     "subtype": {"class": "text", "missing_reasons": {"No Data": -1},
                                 "missing_rules": {}}}}


def _response(labels, ans, keep, single_col, drop_absent, weights=None, miss_pos=1.0):
    """(response, unweighted counts per label, weighted counts per label)."""
    n = len(labels)
    cnt = [0] * n
    wcnt = [0.0] * n
    miss, wmiss = 0, 0.0
    ws = weights if weights is not None else [1.0] * len(ans)
    for a, k, w in zip(ans, keep, ws):
        if not k:
            continue
        if a == -1:
            miss += 1
            wmiss += w
        else:
            cnt[a] += 1
            wcnt[a] += w
    present = [k for k in range(n) if cnt[k] > 0 or not drop_absent]
    miss_at = int(round(miss_pos * len(present)))
    counts = [cnt[k] for k in present]
    counts.insert(miss_at, miss)
    if weights is None:
        wcounts = counts
    else:
        wcounts = [wcnt[k] for k in present]
        wcounts.insert(miss_at, wmiss)
    res = {"counts": counts, "dimensions": [_dim([labels[k] for k in present], miss_at)],
           "measures": {"count": {"data": list(wcounts), "n_missing": miss,
                                  "metadata": {"type": {"class": "numeric", "integer": True,
                                                        "missing_reasons": {"No Data": -1},
                                                        "missing_rules": {}},
                                               "derived": True, "references": {}}}},
           "n": sum(counts), "missing": miss, "element": "crunch:cube",
           "unfiltered": {"unweighted_n": len(ans), "weighted_n": len(ans)},
           "filtered": {"unweighted_n": int(sum(keep)), "weighted_n": int(sum(keep))}}
    if single_col:
        res["is_single_col_cube"] = True
    return {"result": res}, cnt, (cnt if weights is None else wcnt)


def check(case, pid):
    from cr.cube.cube import CubeSet

    res = CaseResult()
    res.classes.append("mode=filtercols")
    labels, ans = case["labels"], case["ans"]
    N = len(ans)
    responses, expected, wexpected = [], [], []
    wts = case.get("weights")
    mp = case.get("miss_pos") or [1.0] * (1 + len(case["filters"]))
    r0, c0, w0 = _response(labels, ans, [True] * N, False, False, wts, mp[0])
    responses.append(r0)
    expected.append(c0)
    wexpected.append(w0)
    dropped = False
    for j_, keep in enumerate(case["filters"]):
        rj, cj, wj = _response(labels, ans, keep, True, True, wts, mp[j_ + 1])
        responses.append(rj)
        expected.append(cj)
        wexpected.append(wj)
        dropped |= any(c == 0 for c in cj) and any(c > 0 for c in cj)
    if wts is not None:
        res.classes.append("filtercols_weighted")
    res.descriptor = {"mode": "filtercols", "labels": len(labels), "respondents": N,
                      "filters": len(case["filters"]), "min_base": case["min_base"],
                      "labels_dropped_by_the_back_end": dropped}
    if dropped:
        res.classes.append("augmented")
        if mp[0] < 1.0:
            res.classes.append("augmented_missing_not_last")
    cs = CubeSet(json.loads(json.dumps(responses)), [{} for _ in responses], case["population"],
                 case["min_base"])
    ps = read(cs, "partition_sets")
    if not res.check("filtercols", ps.ok, "filtercols/exception", {"exc": repr(ps.exc)}):
        return res
    ok_shape = len(ps.value) == 1 and len(ps.value[0]) == len(responses)
    res.check("filtercols", ok_shape, "filtercols/shape", {"got": [len(x) for x in ps.value]})
    if not ok_shape:
        return res
    for j, part in enumerate(ps.value[0]):
        exp = np.array(expected[j], dtype=float)
        wexp = np.array(wexpected[j], dtype=float)
        base = float(exp.sum())
        wbase = float(wexp.sum())
        if pid in ("C06", "C01"):
            lab = read(part, "row_labels")
            res.check("filtercols", lab.ok and [str(x) for x in lab.value] == labels,
                      "filtercols/row_labels", {"cube": j, "got": repr(lab)[:200]})
            for attr, e_ in (("counts", wexp), ("unweighted_counts", exp)):
                g = read(part, attr)
                ok = g.ok and np.asarray(g.value).shape == e_.shape and bool(
                    np.array_equal(np.asarray(g.value, dtype=float), e_))
                res.check("filtercols", ok, "filtercols/%s" % attr,
                          None if ok else {"cube": j, "got": repr(g)[:200], "exp": e_.tolist()})
            tp = read(part, "table_proportions")
            if tp.ok and wbase > 0:
                ok = bool(np.allclose(np.asarray(tp.value, dtype=float), wexp / wbase))
                res.check("filtercols", ok, "filtercols/table_proportions",
                          None if ok else {"cube": j, "got": repr(tp)[:200]})
        elif pid == "C17":
            keep = [True] * N if j == 0 else case["filters"][j - 1]
            frac = float(sum(keep)) / N if N else float("nan")
            pop = case["population"]
            with np.errstate(divide="ignore", invalid="ignore"):
                p_ = wexp / wbase if wbase > 0 else np.full(wexp.shape, np.nan)
                se = np.sqrt(p_ * (1 - p_) / wbase) if wbase > 0 else np.full(wexp.shape,
                                                                              np.nan)
            g = read(part, "population_counts")
            ok = g.ok and np.asarray(g.value).shape == p_.shape and bool(np.allclose(
                np.asarray(g.value, dtype=float), p_ * pop * frac, rtol=1e-9, atol=1e-9,
                equal_nan=True))
            res.check("filtercols_population", ok, "filtercols/population_counts",
                      None if ok else {"cube": j, "got": repr(g)[:200],
                                       "exp": (p_ * pop * frac).tolist()})
            g = read(part, "population_counts_moe")
            ok = g.ok and np.asarray(g.value).shape == p_.shape and bool(np.allclose(
                np.asarray(g.value, dtype=float), 1.959964 * pop * frac * se, rtol=1e-9,
                atol=1e-7, equal_nan=True))
            res.check("filtercols_population", ok, "filtercols/population_counts_moe",
                      None if ok else {"cube": j, "got": repr(g)[:200]})
        else:
            ub = read(part, "unweighted_bases")
            okb = ub.ok and bool(np.array_equal(np.asarray(ub.value, dtype=float),
                                                np.full(exp.shape, base)))
            res.check("filtercols_bases", okb, "filtercols/unweighted_bases",
                      None if okb else {"cube": j, "got": repr(ub)[:200], "exp": base})
            mk = read(part, "min_base_size_mask")
            expm = np.full(exp.shape, base < case["min_base"])
            okm = mk.ok and np.asarray(mk.value).shape == expm.shape and bool(
                np.array_equal(np.asarray(mk.value, dtype=bool), expm))
            res.check("filtercols_mask", okm, "filtercols/min_base_size_mask",
                      None if okm else {"cube": j, "got": repr(mk)[:200], "base": base,
                                        "min_base": case["min_base"]})
            rng = read(part, "table_base_range")
            if rng.ok:
                okr = bool(np.array_equal(np.asarray(rng.value, dtype=float),
                                          np.array([base, base])))
                res.check("filtercols_bases", okr, "filtercols/table_base_range",
                          None if okr else {"cube": j, "got": repr(rng)[:200]})
    res.nontrivial = dropped
    return res
