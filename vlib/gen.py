"""Random (seeded) surveys, queries and transforms: the W1 workload (DESIGN.md 2.1, 2.6).

Everything is drawn from one `random.Random`; numpy is only used to hold the results.
Hostile shapes are produced deliberately: empty categories/items, rows whose members are all
missing on the opposing variable, per-item missingness, zero/fractional dyadic weights,
colliding axis lengths (3 categories next to the 3-long MR selection axis), missing categories
anywhere in the payload, single-element dimensions, N = 0.
"""

import random
import zlib

import numpy as np

from . import sim
from .sim import CatVar, MRVar, CAVar, NumArrVar, NumVar, CubeSpec, SEL, OTH, MIS

DATES = ["2019-01", "2019-04", "2019-07", "2019-10", "2020-01", "2020-04", "2020-07",
         "2020-10", "2021-01", "2021-04"]


def stratum(pid, i, k, n):
    """Index in range(n) for the k-th secondary stratum of unit i: a fixed pseudo-random
    assignment, so that secondary strata mix with the primary round-robin (templates x
    weights) even when a quick run is shorter than the full product of all strata."""
    import zlib

    return (zlib.crc32(("%s/%s/%s" % (pid, i, k)).encode()) >> 4) % n


NEAR_LOGICAL_IDS = [[0, 1, -1], [1, -1, 0], [-1, 1, 0], [0, -1, 1], [-1, 0, 1], [1, 0, -1]]


def _near_logical(cats, prefix):
    """Some 3- and 4-category variables get the ids of a selection dimension (1, 0, -1) without
    being one: a 0/1-coded yes/no question lists them in another order, or carries a fourth
    category, or has no `selected` flag at all. Only the exact list [1, 0, -1] *with* a
    selected category is the selection dimension of a logical / multiple-response variable;
    everything else is an ordinary categorical (array) and tabulated as such. Decided by a
    hash of what has been drawn already, so the random stream of the case is not disturbed."""
    import zlib

    n = len(cats)
    if n not in (3, 4):
        return
    h = zlib.crc32(repr([(c["name"], c["missing"]) for c in cats]).encode()) >> 3
    if h % 3:
        return
    h //= 3
    ids = list(NEAR_LOGICAL_IDS[h % 6])
    h //= 6
    flagged = True
    if n == 4:
        ids = [1, 0, -1, 7] if h % 2 else ids + [2]
    elif ids == [1, 0, -1]:
        flagged = False  # the ids in the order of a selection dimension, nobody `selected`
    for c, i in zip(cats, ids):
        c["id"] = i
        c["name"] = "%s%s_%d" % (prefix, "m" if c["missing"] else "", i)
        c.pop("selected", None)
    if flagged:
        for c in cats:
            if c["id"] == 1 or (c["id"] == 0 and h % 5 == 0):
                c["selected"] = True


class G:
    def __init__(self, seed):
        self.r = random.Random(seed)
        self._alias_n = 0

    # -- helpers -----------------------------------------------------------------------
    def alias(self, prefix):
        self._alias_n += 1
        return "%s%d" % (prefix, self._alias_n)

    def chance(self, p):
        return self.r.random() < p

    def pick(self, seq):
        return seq[self.r.randrange(len(seq))]

    def weights(self, N, mode=None):
        """None (unweighted), dyadic weights k/8 (exact sums) or 3-decimal weights ('float')."""
        r = self.r
        if mode is None:
            mode = self.pick(["none", "none", "frac", "frac", "zeros", "unit8"])
        if mode == "none":
            return None
        if mode == "allzero":
            return np.zeros(N)
        if mode == "unit8":
            return np.array([r.choice([0.5, 1.0, 1.5, 2.0]) for _ in range(N)])
        if mode == "frac":
            return np.array([r.randrange(1, 25) / 8.0 for _ in range(N)])
        if mode == "zeros":
            return np.array([0.0 if r.random() < 0.3 else r.randrange(1, 25) / 8.0
                             for _ in range(N)])
        if mode in ("scales", "tiny", "huge"):
            # dyadic weights times powers of two: still exact, but of very different
            # magnitudes - a cell can hold 99.9999 % of its base ("scales"), or every count
            # and base can be far below 1e-8 ("tiny") or in the millions ("huge")
            out = []
            for _ in range(N):
                k = r.randrange(1, 25) / 8.0
                if mode == "scales":
                    e = r.choice([17, 17, 17, 0, -20, -20])
                else:
                    e = -40 if mode == "tiny" else 20
                out.append(0.0 if r.random() < 0.05 else k * 2.0 ** e)
            return np.array(out)
        if mode == "float":
            # not representable in binary: sums taken in different orders differ in the last
            # bits, which is what real survey weights do (monitors compare with a tolerance)
            return np.array([0.0 if r.random() < 0.08 else round(r.uniform(0.05, 4.0), 3)
                             for _ in range(N)])
        raise ValueError(mode)

    def probs(self, n, p_zero=0.2):
        """Category probabilities, some exactly zero (empty categories)."""
        r = self.r
        p = [0.0 if r.random() < p_zero else r.random() + 0.05 for _ in range(n)]
        if sum(p) == 0:
            p[r.randrange(n)] = 1.0
        s = sum(p)
        return [x / s for x in p]

    def draw(self, probs, N):
        r = self.r
        idx = list(range(len(probs)))
        return np.array(r.choices(idx, weights=probs, k=N), dtype=int) if N else np.zeros(
            0, dtype=int)

    # -- variables ---------------------------------------------------------------------
    def cat(self, N, n_valid=None, n_missing=None, kind="cat", numeric="some",
            prefix="c", reorder=None, p_zero=0.2, id_style=None, near_logical=None):
        r = self.r
        n_valid = r.randint(1, 5) if n_valid is None else n_valid
        n_missing = r.choice([0, 0, 1, 1, 2, 3]) if n_missing is None else n_missing
        n = n_valid + n_missing
        id_style = id_style or self.pick(["seq", "seq", "scatter"])
        if kind in ("text", "datetime", "binned"):
            ids = list(range(n))
        elif id_style == "seq":
            ids = list(range(1, n + 1))
            if n_missing and self.chance(0.5):
                ids[-1] = -1
        else:
            ids = r.sample(range(0, 30), n)
        flags = [False] * n_valid + [True] * n_missing
        r.shuffle(flags)  # missing categories anywhere in the payload
        if kind in ("text", "datetime", "binned"):
            # enum element ids are positions; keep ids ascending, flags shuffled
            pass
        cats = []
        dates = r.sample(DATES, min(n, len(DATES))) if kind == "cat_date" else None
        if dates is not None:
            dates.sort()
            if len(dates) > 1 and zlib.crc32(repr(dates).encode()) % 4 == 0:
                # a wave appended to the variable later: the labels are not ascending in payload
                # order (no random draw is consumed, so every other case stays as it was)
                dates.append(dates.pop(0))
        nv_mode = numeric if numeric in ("none", "all", "some") else "some"
        for j in range(n):
            c = {"id": ids[j], "name": "%s%s_%d" % (prefix, "m" if flags[j] else "", ids[j]),
                 "missing": flags[j]}
            if kind == "cat_date" and not flags[j]:
                c["date"] = dates[j % len(dates)]
            if nv_mode == "none" or flags[j]:
                c["numeric_value"] = None
            elif nv_mode == "all":
                c["numeric_value"] = r.choice([-2, -1, 0, 1, 2, 3, 5, 10, 1.5, 2.5])
            else:
                c["numeric_value"] = (None if r.random() < 0.3 else
                                      r.choice([-2, -1, 0, 1, 2, 3, 5, 10, 1.5, 2.5, 2, 3]))
            if kind == "text":
                c["value"] = {"?": -1} if flags[j] else "txt%d" % j
            elif kind == "datetime":
                c["value"] = {"?": -1} if flags[j] else "20%02d-0%d-1%d" % (10 + j, 1 + j % 9,
                                                                           j % 9)
            elif kind == "binned":
                c["value"] = {"?": -1} if flags[j] else [j * 5, j * 5 + 5]
            cats.append(c)
        if kind == "cat_date" and not any("date" in c for c in cats):
            kind = "cat"
        if kind == "cat" and near_logical is not False:
            _near_logical(cats, prefix)
        ans = self.draw(self.probs(n, p_zero), N)
        data_order = None
        if reorder is None:
            reorder = kind in ("cat", "cat_date") and self.chance(0.15)
        if reorder and n > 1:
            data_order = list(range(n))
            r.shuffle(data_order)
        alias = self.alias(prefix)
        v = CatVar(alias, cats, ans, kind, None, data_order,
                   description=None if self.chance(0.5) else "desc of %s" % alias,
                   resolution="D" if kind == "datetime" else None)
        return v

    def items(self, n, prefix, style=None):
        """Item descriptors with aliases / sub-variable ids / element ids."""
        r = self.r
        style = style or self.pick(["std", "std", "scatter", "crossed"])
        out = []
        elem_ids = list(range(1, n + 1)) if style in ("std", "crossed") else r.sample(
            range(0, 40), n)
        for j in range(n):
            if style == "std":
                sv = "%04d" % (j + 1)
            elif style == "crossed":
                # zero-padded digit strings whose number is the element id of ANOTHER item
                # (sub-variables re-ordered after creation): "0002" must resolve by the
                # sub-variable-id rule, never as the number 2
                sv = "%04d" % elem_ids[(j + 1) % n]
            else:
                sv = "sv%s%d" % (prefix, j)
            out.append({"alias": "%s_it%d" % (prefix, j + 1), "name": "%s item %d" % (prefix, j + 1),
                        "subvar_id": sv,
                        "elem_id": elem_ids[j], "derived": False, "anchor": None})
        return out

    def mr(self, N, n_items=None, p_missing=None, prefix="m", per_item_missing=True):
        r = self.r
        n_items = r.randint(1, 4) if n_items is None else n_items
        alias = self.alias(prefix)
        items = self.items(n_items, alias)
        state = np.zeros((N, n_items), dtype=int)
        for s in range(n_items):
            pm = (r.choice([0.0, 0.0, 0.2, 0.5, 1.0]) if p_missing is None else p_missing) \
                if per_item_missing else (p_missing or 0.0)
            ps = r.choice([0.0, 0.1, 0.4, 0.7, 1.0])
            for i in range(N):
                u = r.random()
                if u < pm:
                    state[i, s] = MIS
                else:
                    state[i, s] = SEL if r.random() < ps else OTH
        return MRVar(alias, items, state)

    def ca(self, N, n_items=None, n_valid=None, n_missing=None, prefix="a", numeric="some"):
        r = self.r
        n_items = r.randint(1, 4) if n_items is None else n_items
        proto = self.cat(0, n_valid, n_missing, "cat", numeric, prefix="k", reorder=False)
        alias = self.alias(prefix)
        items = self.items(n_items, alias)
        ans = np.zeros((N, n_items), dtype=int)
        for s in range(n_items):
            ans[:, s] = self.draw(self.probs(len(proto.cats)), N)
        return CAVar(alias, items, proto.cats, ans)

    def numarr(self, N, n_items=None, prefix="n"):
        r = self.r
        n_items = r.randint(1, 4) if n_items is None else n_items
        alias = self.alias(prefix)
        items = [{"alias": "%s_s%d" % (alias, j + 1), "name": "%s sub %d" % (alias, j + 1),
                  "subvar_id": "S%d" % (j + 1)} for j in range(n_items)]
        x = np.empty((N, n_items))
        for s in range(n_items):
            pm = r.choice([0.0, 0.2, 0.5, 1.0, 0.1])
            for i in range(N):
                x[i, s] = float("nan") if r.random() < pm else r.randrange(-8, 40) / 4.0
        return NumArrVar(alias, items, x)

    def num(self, N, p_missing=None, prefix="x"):
        r = self.r
        pm = r.choice([0.0, 0.1, 0.4]) if p_missing is None else p_missing
        x = np.array([float("nan") if r.random() < pm else r.randrange(-8, 40) / 4.0
                      for _ in range(N)])
        return NumVar(self.alias(prefix), x)

    # -- dependencies between variables (zero bases etc.) ------------------------------
    def entangle(self, a_role, a, b_role, b):
        """Force a structural zero: members of one element of `a` are all missing on `b`."""
        r = self.r
        N = a.n
        if N == 0:
            return
        if a_role == "cat":
            k = r.randrange(len(a.cats))
            members = a.ans == k
        elif a_role == "mr":
            members = a.state[:, r.randrange(a.state.shape[1])] == SEL
        else:
            return
        if b_role == "cat":
            miss = [j for j, c in enumerate(b.cats) if c.get("missing")]
            if not miss:
                return
            b.ans = np.where(members, r.choice(miss), b.ans)
        elif b_role == "mr":
            s = r.randrange(b.state.shape[1])
            if self.chance(0.5):
                b.state[members, :] = MIS
            else:
                b.state[members, s] = MIS


# ---------------------------------------------------------------------------- transforms


def gen_insertions(g, valid_ids, missing_ids, n=None, allow_diff=True, allow_stale=True,
                   with_ids=None, disjoint=False, anchors=None, hide_some=True):
    """Random insertion dicts for a categorical dimension.

    Addend / subtrahend sets are arbitrary subsets of the valid ids, salted with missing and
    stale ids; anchors are drawn from top/bottom/TOP/None/ids (int or str)/stale/missing ids.
    """
    r = g.r
    n = r.choice([1, 1, 2, 2, 3, 4]) if n is None else n
    with_ids = r.choice(["all", "none", "mixed"]) if with_ids is None else with_ids
    stale = [x for x in (97, 98, 99) if x not in valid_ids and x not in missing_ids]
    out = []
    used_ids = r.sample(range(1, 30), n)
    for k in range(n):
        pool = list(valid_ids)
        r.shuffle(pool)
        na = r.randint(1, max(1, min(3, len(pool))))
        pos = pool[:na]
        neg = []
        if allow_diff and r.random() < 0.35:
            rest = pool[na:] if disjoint else pool
            nn = r.randint(1, max(1, min(2, len(rest)))) if rest else 0
            neg = r.sample(rest, nn) if rest else []
        if allow_stale and r.random() < 0.3:
            pos = pos + [r.choice(stale + list(missing_ids))] if (stale or missing_ids) else pos
        if allow_stale and neg and r.random() < 0.2 and stale:
            neg = neg + [r.choice(stale)]
        if allow_stale and allow_diff and not neg and (stale or missing_ids) \
                and r.random() < 0.12:
            # a 'negative' list none of whose ids resolves (category deleted or missing): the
            # subtotal has no subtrahends and is an ordinary subtotal, not a difference
            neg = [r.choice(stale + list(missing_ids))]
        if anchors is None:
            achoices = ["top", "bottom", "TOP", "Bottom", None]
            achoices += list(valid_ids) + [str(x) for x in valid_ids]
            achoices += stale[:1] + list(missing_ids)[:1]
            anchor = r.choice(achoices)
        else:
            anchor = r.choice(anchors)
        ins = {"function": "subtotal", "name": "ins_%d" % (k + 1), "anchor": anchor}
        if neg or r.random() < 0.4:
            ins["kwargs"] = {"positive": pos}
            if neg:
                ins["kwargs"]["negative"] = neg
            if r.random() < 0.3:
                ins["args"] = pos
        else:
            ins["args"] = pos
        if with_ids == "all" or (with_ids == "mixed" and r.random() < 0.5):
            ins["id"] = used_ids[k]
        if hide_some and r.random() < 0.08:
            ins["hide"] = True
        if r.random() < 0.1:
            ins["fill"] = "#%06x" % r.randrange(0, 0xFFFFFF)
        out.append(ins)
    # a few junk entries the library must skip
    if r.random() < 0.15:
        out.insert(r.randrange(len(out) + 1), {"function": "heading", "name": "H", "anchor": "top"})
    if r.random() < 0.05:
        out.insert(r.randrange(len(out) + 1), "not-a-dict")
    if r.random() < 0.08 and stale:
        out.insert(r.randrange(len(out) + 1), {"function": "subtotal", "name": "stale-only",
                                               "anchor": "bottom", "args": [stale[0]]})
    return out
