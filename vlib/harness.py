"""Runner: units -> worker processes -> monitors -> verdict, evidence, replays.

A property module (vlib/props/cXX.py) provides

    ID, TITLE, RULE, ASSUMPTIONS, REQUIRED_REACH (list of reach/monitor keys that must be > 0)
    units(tier, seed)      -> list of small JSON-able unit descriptors (deterministic)
    make_case(unit)        -> JSON-able case (complete: survey, query, transforms ...)
    check_case(case)       -> CaseResult

Verdicts are three-valued (DESIGN.md 2.7): exit 0 held / exit 1 VIOLATION / exit 2 INCONCLUSIVE.
"""

import collections
import concurrent.futures
import faulthandler
import hashlib
import importlib
import json
import os
import subprocess
import sys
import time
import traceback

from . import env

VERIF = env.VERIF_ROOT
# VERIF_SCRATCH_OUT (tools/seed_eval.py, tools/mutants.py only): evidence and replays of a run against a
# deliberately broken tree go to a scratch directory, so that parallel evaluations do not disturb
# /verif/evidence; the registered commands never set it.
_OUT = os.environ.get("VERIF_SCRATCH_OUT") or VERIF
EVIDENCE_DIR = os.path.join(_OUT, "evidence")
REPLAY_DIR = os.path.join(_OUT, "replays")
KNOWN_FINDINGS = os.path.join(VERIF, "known_findings.json")


class CaseResult:
    """What one case contributed."""

    def __init__(self):
        self.violations = []  # list of dict(monitor, key, detail)
        self.monitors = collections.Counter()  # monitor name -> evaluations
        self.comparisons = 0
        self.nontrivial = False
        self.descriptor = None  # short JSON-able description (for samples)
        self.classes = []  # stratification / reach labels hit by this case
        self.skipped = collections.Counter()
        self.observations = collections.Counter()  # recorded-not-judged facts

    def check(self, monitor, ok, key=None, detail=None):
        """Record one monitor evaluation; `ok` False is a violation."""
        self.monitors[monitor] += 1
        self.comparisons += 1
        if not ok:
            self.violations.append({"monitor": monitor, "key": key or monitor,
                                    "detail": detail})
        return ok

    def to_dict(self):
        return {"violations": self.violations, "monitors": dict(self.monitors),
                "comparisons": self.comparisons, "nontrivial": self.nontrivial,
                "descriptor": self.descriptor, "classes": self.classes,
                "skipped": dict(self.skipped), "observations": dict(self.observations)}


def case_hash(case):
    return hashlib.sha256(json.dumps(case, sort_keys=True, default=str).encode()).hexdigest()[:16]


def load_prop(pid):
    return importlib.import_module("vlib.props.%s" % pid.lower())


# ------------------------------------------------------------------------------- worker


def worker_main():
    """stdin: {"pid":..., "units":[...]} ; stdout: one JSON document."""
    faulthandler.enable()
    req = json.load(sys.stdin)
    env.activate()
    env.ensure_deps()
    from . import probe

    probe.install_reach()
    prop = load_prop(req["pid"])
    if hasattr(prop, "setup_worker"):
        prop.setup_worker()
    out = {"results": [], "harness_errors": []}
    for unit in req["units"]:
        try:
            case = prop.make_case(unit)
            res = prop.check_case(case)
            d = res.to_dict()
            d["hash"] = case_hash(case)
            d["unit"] = unit
            if d["violations"]:
                d["case"] = case
            out["results"].append(d)
        except Exception:  # the harness' own failure: inconclusive, never a violation
            out["harness_errors"].append({"unit": unit, "trace": traceback.format_exc()[-3000:]})
    out["events"] = probe.COUNTERS["events"]
    out["reach"] = dict(probe.REACH)
    if hasattr(prop, "worker_extra"):
        out["extra"] = prop.worker_extra()
    json.dump(out, sys.stdout, default=str)


def _run_batch(pid, units, timeout):
    envv = dict(os.environ)
    envv["PYTHONHASHSEED"] = "0"
    envv["PYTHONPATH"] = VERIF + os.pathsep + envv.get("PYTHONPATH", "")
    envv.setdefault("CRCUBE_VERIF", "1")
    t0 = time.time()
    try:
        p = subprocess.run(
            [sys.executable, "-c", "from vlib.harness import worker_main; worker_main()"],
            input=json.dumps({"pid": pid, "units": units}), capture_output=True, text=True,
            timeout=timeout, env=envv, cwd=VERIF,
        )
    except subprocess.TimeoutExpired:
        return {"died": "watchdog after %ss" % timeout, "n": len(units)}
    if p.returncode != 0:
        return {"died": "exit %s: %s" % (p.returncode, p.stderr[-2000:]), "n": len(units)}
    try:
        out = json.loads(p.stdout)
    except Exception:
        return {"died": "unparseable worker output: %s" % p.stdout[-500:], "n": len(units)}
    out["wall"] = time.time() - t0
    out["stderr_tail"] = p.stderr[-500:]
    return out


# ------------------------------------------------------------------------ known findings


def load_known():
    if not os.path.exists(KNOWN_FINDINGS):
        return []
    with open(KNOWN_FINDINGS) as fh:
        return json.load(fh).get("findings", [])


def match_known(pid, violation, known):
    """An *open* entry matches when its property and key equal the violation's mechanism key."""
    for k in known:
        if k.get("status") != "open" or k.get("property") != pid:
            continue
        keys = k.get("keys") or [k.get("key")]
        if violation["key"] in keys:
            return k
    return None


# --------------------------------------------------------------------------------- main


def run_check(pid, tier="quick", seed=0, jobs=None, replay=None):
    t0 = time.time()
    env.activate()
    prop = load_prop(pid)
    if replay:
        return _replay(prop, pid, replay)
    jobs = jobs or int(os.environ.get("VERIF_JOBS", "0")) or min(16, os.cpu_count() or 4)
    units = prop.units(tier, seed)
    batch = max(1, min(getattr(prop, "BATCH", 40), (len(units) + jobs - 1) // jobs))
    batches = [units[i:i + batch] for i in range(0, len(units), batch)]
    per_unit = getattr(prop, "UNIT_TIMEOUT_S", 20)
    agg = {"results": 0, "harness_errors": [], "died": [], "events": 0,
           "reach": collections.Counter(), "monitors": collections.Counter(),
           "comparisons": 0, "nontrivial": set(), "all_hashes": set(), "samples": [],
           "classes": collections.Counter(), "skipped": collections.Counter(),
           "observations": collections.Counter(), "violations": [], "extra": []}
    with concurrent.futures.ThreadPoolExecutor(max_workers=jobs) as ex:
        futs = [ex.submit(_run_batch, pid, b, 120 + per_unit * len(b)) for b in batches]
        for f in futs:
            out = f.result()
            if "died" in out:
                agg["died"].append(out["died"])
                continue
            agg["events"] += out.get("events", 0)
            agg["reach"].update(out.get("reach", {}))
            agg["harness_errors"] += out.get("harness_errors", [])
            if "extra" in out:
                agg["extra"].append(out["extra"])
            for r in out["results"]:
                agg["results"] += 1
                agg["monitors"].update(r["monitors"])
                agg["comparisons"] += r["comparisons"]
                agg["all_hashes"].add(r["hash"])
                if r["nontrivial"]:
                    agg["nontrivial"].add(r["hash"])
                    if len(agg["samples"]) < 3 and r.get("descriptor") is not None:
                        agg["samples"].append(r["descriptor"])
                agg["classes"].update(r["classes"])
                agg["skipped"].update(r["skipped"])
                agg["observations"].update(r["observations"])
                for v in r["violations"]:
                    agg["violations"].append((v, r))
    return _finish(prop, pid, tier, seed, agg, time.time() - t0, len(units))


def _required(prop, tier):
    rr = getattr(prop, "REQUIRED_REACH", [])
    if isinstance(rr, dict):
        return rr.get(tier, rr.get("quick", []))
    return rr


def _finish(prop, pid, tier, seed, agg, wall, n_units):
    known = load_known()
    new_viol = []
    known_hit = collections.OrderedDict()
    for v, r in agg["violations"]:
        k = match_known(pid, v, known)
        if k is not None:
            known_hit.setdefault(k["id"], [k, 0])
            known_hit[k["id"]][1] += 1
        else:
            new_viol.append((v, r))
    lines = []
    replay_paths = []
    seen_keys = set()
    for v, r in new_viol:
        if v["key"] in seen_keys and len(replay_paths) >= 5:
            continue
        seen_keys.add(v["key"])
        d = os.path.join(REPLAY_DIR, pid)
        os.makedirs(d, exist_ok=True)
        path = os.path.join(d, "%s.json" % r["hash"])
        if not os.path.exists(path) or True:
            with open(path, "w") as fh:
                json.dump({"property": pid, "tier": tier, "seed": seed, "unit": r["unit"],
                           "violations": [x for x in r["violations"]], "case": r.get("case")},
                          fh, indent=1, default=str)
        if path not in replay_paths:
            replay_paths.append(path)
            lines.append("VIOLATION property=%s replay=%s" % (pid, path))
            lines.append("  monitor=%s key=%s detail=%s" % (
                v["monitor"], v["key"], json.dumps(v["detail"], default=str)[:600]))
        if len(replay_paths) >= 12:
            break
    if new_viol:
        bykey = collections.Counter(v["key"] for v, _ in new_viol)
        lines.append("violation keys: " + json.dumps(dict(bykey.most_common(40))))
    for kid, (k, cnt) in known_hit.items():
        lines.append("KNOWN-FINDING: property=%s %s [%s, %d occurrences this run]" % (
            pid, k["what"], kid, cnt))

    # inconclusive?
    reasons = []
    if agg["died"]:
        reasons.append("worker died/timed out: %s" % agg["died"][0][:300])
    if agg["harness_errors"]:
        reasons.append("harness error in %d units: %s" % (
            len(agg["harness_errors"]), agg["harness_errors"][0]["trace"][-600:]))
    merged = collections.Counter()
    merged.update(agg["reach"])
    merged.update(agg["monitors"])
    merged.update({"class:%s" % k: v for k, v in agg["classes"].items()})
    for key in _required(prop, tier):
        if merged.get(key, 0) == 0:
            reasons.append("required monitor/reach %r had zero evaluations" % key)
    if agg["results"] == 0:
        reasons.append("no case executed")
    if len(agg["nontrivial"]) < 2:
        reasons.append("fewer than 2 distinct non-trivial cases")

    n_viol = len(new_viol)
    evidence = {
        "property_id": pid, "tier": tier, "seed": int(seed), "level": "exploration",
        "coverage": {
            "evaluations": int(agg["results"]),
            "distinct_nontrivial": int(len(agg["nontrivial"])),
            "distinct_cases": int(len(agg["all_hashes"])),
            "rule": prop.RULE,
            "samples": agg["samples"] or [{"note": "no non-trivial case"}],
            "exhaustive": bool(getattr(prop, "EXHAUSTIVE", {}).get(tier, False)) if isinstance(
                getattr(prop, "EXHAUSTIVE", None), dict) else False,
            "events": int(agg["events"]),
            "oracle_comparisons": int(agg["comparisons"]),
            "monitors": {k: int(v) for k, v in sorted(agg["monitors"].items())},
            "reach": {k: int(v) for k, v in sorted(agg["reach"].items())},
            "case_classes": {k: int(v) for k, v in sorted(agg["classes"].items())},
            "skipped": {k: int(v) for k, v in sorted(agg["skipped"].items())},
            "observations_not_judged": {k: int(v) for k, v in sorted(
                agg["observations"].items())},
            "known_findings_hit": {kid: cnt for kid, (k, cnt) in known_hit.items()},
            "units_planned": int(n_units),
            "inconclusive_reasons": reasons,
            "tree": env.tree_info(),
        },
        "assumptions": list(getattr(prop, "ASSUMPTIONS", [])),
        "wall_s": round(wall, 2),
        "violations": int(n_viol),
    }
    if agg["extra"]:
        evidence["coverage"]["extra"] = agg["extra"][:4]
    os.makedirs(EVIDENCE_DIR, exist_ok=True)
    with open(os.path.join(EVIDENCE_DIR, "%s.json" % pid), "w") as fh:
        json.dump(evidence, fh, indent=1, default=str)

    for ln in lines:
        print(ln)
    summary = ("%s tier=%s seed=%s cases=%d nontrivial=%d events=%d comparisons=%d "
               "violations=%d known=%d wall=%.1fs" % (
                   pid, tier, seed, agg["results"], len(agg["nontrivial"]), agg["events"],
                   agg["comparisons"], n_viol, sum(c for _, c in known_hit.values()), wall))
    if n_viol:
        print("RESULT violated " + summary)
        return 1
    if reasons:
        for rs in reasons:
            print("INCONCLUSIVE property=%s reason=%s" % (pid, rs.replace("\n", " | ")[:900]))
        print("RESULT inconclusive " + summary)
        return 2
    print("RESULT held-on-observed " + summary)
    return 0


def _replay(prop, pid, path):
    with open(path) as fh:
        doc = json.load(fh)
    case = doc.get("case")
    if case is None:
        case = prop.make_case(doc["unit"])
    env.ensure_deps()
    from . import probe

    probe.install_reach()
    if hasattr(prop, "setup_worker"):
        prop.setup_worker()
    res = prop.check_case(case)
    known = load_known()
    bad = 0
    for v in res.violations:
        k = match_known(pid, v, known)
        if k is not None:
            print("KNOWN-FINDING: property=%s %s [%s]" % (pid, k["what"], k["id"]))
            continue
        bad += 1
        print("VIOLATION property=%s replay=%s" % (pid, path))
        print("  monitor=%s key=%s detail=%s" % (v["monitor"], v["key"],
                                                 json.dumps(v["detail"], default=str)[:1500]))
    print("replay: %d monitor evaluations, %d violations" % (res.comparisons, bad))
    return 1 if bad else 0
