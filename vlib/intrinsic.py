"""Intrinsic relations (monitor shape I): relations among the library's *own* public outputs on
one partition that the property statements imply and that need no ground truth.

They are what can be decided on inputs without a respondent-level oracle: the repository's
fixture responses (W3, vlib/corpus.py) and the partitions its own integration tests build
(W4, vlib/w4plugin.py). Each function takes a CaseResult, a partition and a context dict
(population, alpha, only_larger ... as far as the caller knows them) and records monitor
evaluations under keys prefixed by `prefix`.

Only relations that hold for *every* response are here; anything that needs to know what the
numbers mean (which respondents, which weights) stays in the reference-model monitors.
"""

import numpy as np
from scipy.special import ndtr

from . import cmp
from .probe import read

Z = 1.959964
ARRAY_TYPES = ("MR", "MR_SUBVAR", "CA_SUBVAR", "CA", "NUM_ARRAY")
NUMARR = ("NUM_ARRAY",)


class P:
    """Cached boundary reads of one partition."""

    def __init__(self, res, part, prefix):
        self.res, self.part, self.prefix = res, part, prefix
        self._c = {}

    def get(self, name, *args):
        k = (name,) + args
        if k not in self._c:
            self._c[k] = read(self.part, name, *args)
        return self._c[k]

    def arr(self, name, *args):
        g = self.get(name, *args)
        if not g.ok or g.value is None:
            return None
        try:
            return np.asarray(g.value, dtype=float)
        except Exception:
            return None

    def check(self, monitor, ok, key, detail=None):
        return self.res.check(monitor, ok, self.prefix + key, detail)

    @property
    def dim_types(self):
        g = self.get("dimension_types")
        return tuple(d.name for d in g.value) if g.ok else ()

    @property
    def is_slice(self):
        g = self.get("shape")
        return g.ok and len(g.value) == 2

    @property
    def is_strand(self):
        g = self.get("shape")
        return g.ok and len(g.value) == 1 and type(self.part).__name__ == "_Strand"

    def idxs(self, name):
        g = self.get(name)
        if not g.ok or g.value is None:
            return None
        return [int(i) for i in g.value]


def _same_where(p, monitor, key, got, exp, mask, rtol=1e-9, atol=1e-12):
    if got is None or exp is None:
        return None
    if got.shape != exp.shape:
        return p.check(monitor, False, key + "/shape", {"got": list(got.shape),
                                                         "exp": list(exp.shape)})
    m = mask if mask is not None else np.ones(got.shape, dtype=bool)
    ok, det = cmp.same(np.where(m, got, 0.0), np.where(m, exp, 0.0), rtol=rtol, atol=atol)
    return p.check(monitor, ok, key, det)


def _diffcell_mask(p, shape):
    """True where a cell belongs to a difference row or column."""
    m = np.zeros(shape, dtype=bool)
    dr, dc = p.idxs("diff_row_idxs") or [], p.idxs("diff_column_idxs") or []
    for i in dr:
        if 0 <= i < shape[0]:
            m[i, :] = True
    for j in dc:
        if 0 <= j < shape[1]:
            m[:, j] = True
    return m


# ------------------------------------------------------------------------------------- C02


def _collapsed(p, monitor, key, marg, cell, axis):
    """A margin is the collapsed form of the per-cell bases: a 1-D margin repeats along the
    opposing axis, a 2-D margin (bases that vary by cell) equals the per-cell array."""
    if marg is None or cell is None or cell.ndim != 2:
        return
    if marg.ndim == 2:
        exp = marg
    elif marg.ndim == 1 and marg.shape[0] == cell.shape[axis]:
        exp = np.repeat(marg[:, None], cell.shape[1], axis=1) if axis == 0 else np.repeat(
            marg[None, :], cell.shape[0], axis=0)
    elif marg.ndim == 0:
        exp = np.full(cell.shape, float(marg))
    else:
        p.check(monitor, False, key + "/shape", {"margin": list(marg.shape),
                                                  "cells": list(cell.shape)})
        return
    if exp.shape != cell.shape:
        p.check(monitor, False, key + "/shape", {"margin": list(marg.shape),
                                                  "cells": list(cell.shape)})
        return
    ok, det = cmp.same(cell, exp, rtol=1e-9, atol=1e-9)
    p.check(monitor, ok, key, det)


def c02(p, ctx):
    if p.is_slice:
        if any(t in NUMARR for t in p.dim_types):
            p.res.skipped["c02_numeric_array"] += 1
            return
        for marg, cell, axis in (("rows_base", "row_unweighted_bases", 0),
                                 ("rows_margin", "row_weighted_bases", 0),
                                 ("columns_base", "column_unweighted_bases", 1),
                                 ("columns_margin", "column_weighted_bases", 1)):
            _collapsed(p, "i_margin_is_collapsed_base", "c02/%s" % marg, p.arr(marg),
                       p.arr(cell), axis)
        for marg, cell in (("table_base", "table_unweighted_bases"),
                           ("table_margin", "table_weighted_bases")):
            m, c = p.arr(marg), p.arr(cell)
            if m is None or c is None or c.ndim != 2:
                continue
            if m.ndim == 0:
                exp = np.full(c.shape, float(m))
            elif m.ndim == 1 and m.shape[0] == c.shape[0] and m.shape[0] != c.shape[1]:
                exp = np.repeat(m[:, None], c.shape[1], axis=1)
            elif m.ndim == 1 and m.shape[0] == c.shape[1] and m.shape[0] != c.shape[0]:
                exp = np.repeat(m[None, :], c.shape[0], axis=0)
            elif m.ndim == 2 and m.shape == c.shape:
                exp = m
            else:
                continue  # square tables: the orientation of a 1-D table base is not observable
            # inserted vectors carry sums of their addends' bases in the per-cell arrays only
            keep = np.ones(c.shape, dtype=bool)
            for i in p.idxs("inserted_row_idxs") or []:
                if 0 <= i < c.shape[0]:
                    keep[i, :] = False
            for j in p.idxs("inserted_column_idxs") or []:
                if 0 <= j < c.shape[1]:
                    keep[:, j] = False
            _same_where(p, "i_table_base_is_collapsed", "c02/%s" % marg, c, exp, keep,
                        atol=1e-9)
        size = ctx.get("mask_size")
        mk = p.get("min_base_size_mask")
        if size is not None and mk.ok:
            for nm, basen in (("row_mask", "row_unweighted_bases"),
                              ("column_mask", "column_unweighted_bases"),
                              ("table_mask", "table_unweighted_bases")):
                g, b = read(mk.value, nm), p.arr(basen)
                if not g.ok or b is None:
                    continue
                with np.errstate(invalid="ignore"):
                    exp = b < size
                got = np.asarray(g.value)
                ok = got.shape == exp.shape and bool(np.array_equal(got, exp))
                p.check("i_mask_is_base_below_size", ok, "c02/mask/%s" % nm,
                        None if ok else {"got": got.tolist(), "exp": exp.tolist()})
    elif p.is_strand:
        ub, wb = p.arr("unweighted_bases"), p.arr("weighted_bases")
        if ctx.get("display_transforms") is False:
            ins = set(p.idxs("inserted_row_idxs") or [])
            for rng, b in (("table_base_range", ub), ("table_margin_range", wb)):
                r = p.arr(rng)
                if r is None or b is None or b.size == 0:
                    continue
                v = np.array([x for i, x in enumerate(b) if i not in ins])
                if v.size == 0 or np.any(np.isnan(v)):
                    continue
                ok, det = cmp.same(r, np.array([v.min(), v.max()]), rtol=1e-9, atol=1e-9)
                p.check("i_range_is_min_max", ok, "c02/strand/%s" % rng, det)


# ------------------------------------------------------------------------------------- C03


def c03(p, ctx):
    if p.is_slice:
        if any(t in NUMARR for t in p.dim_types):
            p.res.skipped["c03_numeric_array"] += 1
            return
        counts = p.arr("counts")
        if counts is None or counts.ndim != 2:
            return
        diff = _diffcell_mask(p, counts.shape)
        for d in ("row", "column", "table"):
            prop = p.arr("%s_proportions" % d)
            pct = p.arr("%s_percentages" % d)
            base = p.arr("%s_weighted_bases" % d)
            if prop is None or base is None or prop.shape != counts.shape:
                continue
            if pct is not None:
                ok, det = cmp.same(pct, prop * 100, rtol=1e-12, atol=0)
                p.check("i_percent_is_100p", ok, "c03/%s_percentages" % d, det)
            with np.errstate(divide="ignore", invalid="ignore"):
                q = counts / base
            # differences follow rules of their own (C04: wave differences, NaN proportions)
            judge = np.isfinite(base) & (base > 0) & np.isfinite(counts) & ~diff
            _same_where(p, "i_count_over_base", "c03/%s_proportions" % d, prop, q, judge)
            zero = (base == 0)
            p.check("i_nan_where_zero_base", bool(np.all(np.isnan(prop[zero]))),
                    "c03/%s_proportions/zero_base_not_nan" % d,
                    None if np.all(np.isnan(prop[zero])) else {"prop": prop.tolist()})
            nb = ~diff & np.isfinite(prop)
            inb = bool(np.all((prop[nb] >= 0) & (prop[nb] <= 1 + 1e-12)))
            p.check("i_bounded", inb, "c03/%s_proportions/bounds" % d,
                    None if inb else {"prop": prop.tolist()})
    elif p.is_strand:
        if any(t in NUMARR for t in p.dim_types):
            return
        counts, prop, pct, base = (p.arr("counts"), p.arr("table_proportions"),
                                   p.arr("table_percentages"), p.arr("weighted_bases"))
        if counts is None or prop is None or base is None or prop.shape != counts.shape:
            return
        if pct is not None:
            ok, det = cmp.same(pct, prop * 100, rtol=1e-12, atol=0)
            p.check("i_percent_is_100p", ok, "c03/strand/table_percentages", det)
        with np.errstate(divide="ignore", invalid="ignore"):
            q = counts / base
        judge = np.isfinite(base) & (base > 0) & np.isfinite(counts)
        for i in p.idxs("diff_row_idxs") or []:
            if 0 <= i < judge.shape[0]:
                judge[i] = False
        _same_where(p, "i_count_over_base", "c03/strand/table_proportions", prop, q, judge)


# ------------------------------------------------------------------------------------- C11


def c11(p, ctx):
    if p.is_slice:
        if any(t in NUMARR for t in p.dim_types):
            return
        ins_r = set(p.idxs("inserted_row_idxs") or [])
        ins_c = set(p.idxs("inserted_column_idxs") or [])
        for d, (vn, sdn, sen, moen) in {
            "row": ("row_proportion_variances", "row_std_dev", "row_std_err",
                    "row_proportions_moe"),
            "column": ("column_proportion_variances", "column_std_dev", "column_std_err",
                       "column_proportions_moe"),
            "table": ("table_proportion_variances", "table_std_dev", "table_std_err",
                      "table_proportions_moe"),
        }.items():
            var, sd, se, moe = p.arr(vn), p.arr(sdn), p.arr(sen), p.arr(moen)
            base, prop = p.arr("%s_weighted_bases" % d), p.arr("%s_proportions" % d)
            if var is None or var.ndim != 2:
                continue
            fin = np.isfinite(var)
            p.check("i_variance_non_negative", bool(np.all(var[fin] >= 0)),
                    "c11/%s/negative_variance" % d,
                    None if np.all(var[fin] >= 0) else {"var": var.tolist()})
            with np.errstate(invalid="ignore", divide="ignore"):
                if sd is not None and sd.shape == var.shape:
                    ok, det = cmp.same(sd, np.sqrt(var))
                    p.check("i_std_dev_is_sqrt", ok, "c11/%s_std_dev" % d, det)
                if se is not None and base is not None and se.shape == var.shape == base.shape:
                    judge = np.isfinite(base) & (base > 0)
                    _same_where(p, "i_std_err", "c11/%s_std_err" % d, se, np.sqrt(var / base),
                                judge, atol=1e-9)
                if moe is not None and se is not None and moe.shape == se.shape:
                    ok, det = cmp.same(moe, Z * se)
                    p.check("i_moe_is_z_se", ok, "c11/%s_proportions_moe" % d, det)
            if prop is not None and prop.shape == var.shape:
                und = np.isnan(prop)
                bad = [nm for nm, a in ((vn, var), (sdn, sd), (sen, se), (moen, moe))
                       if a is not None and a.shape == und.shape
                       and not bool(np.all(np.isnan(a[und])))]
                p.check("i_nan_where_proportion_undefined", not bad,
                        "c11/%s/defined_where_proportion_is_not" % d,
                        None if not bad else {"measures": bad})
            # ordinary cells: p (1 - p)
            if prop is not None and prop.shape == var.shape:
                ordinary = np.ones(var.shape, dtype=bool)
                for i in ins_r:
                    if 0 <= i < var.shape[0]:
                        ordinary[i, :] = False
                for j in ins_c:
                    if 0 <= j < var.shape[1]:
                        ordinary[:, j] = False
                _same_where(p, "i_p_one_minus_p", "c11/%s_variance_ordinary" % d, var,
                            prop * (1 - prop), ordinary & np.isfinite(prop), atol=1e-12)
    elif p.is_strand:
        if any(t in NUMARR for t in p.dim_types):
            return
        sd, se, moe = (p.arr("table_proportion_stddevs"), p.arr("table_proportion_stderrs"),
                       p.arr("table_proportion_moes"))
        base = p.arr("weighted_bases")
        if sd is None or se is None:
            return
        with np.errstate(invalid="ignore", divide="ignore"):
            if base is not None and base.shape == sd.shape:
                judge = np.isfinite(base) & (base > 0)
                _same_where(p, "i_std_err", "c11/strand/stderrs", se, np.sqrt(sd ** 2 / base),
                            judge, atol=1e-9)
            if moe is not None and moe.shape == se.shape:
                ok, det = cmp.same(moe, Z * se)
                p.check("i_moe_is_z_se", ok, "c11/strand/moes", det)
        fin = np.isfinite(sd)
        p.check("i_variance_non_negative", bool(np.all(sd[fin] >= 0)), "c11/strand/negative",
                None)


# ------------------------------------------------------------------------------------- C12


def c12(p, ctx):
    if not p.is_slice:
        return
    z, pv = p.arr("zscores"), p.arr("pvals")
    if z is None or pv is None or z.shape != pv.shape:
        return
    with np.errstate(invalid="ignore"):
        exp = 2 * (1 - ndtr(np.abs(z)))
    ok, det = cmp.same(pv, exp, rtol=1e-9, atol=1e-12)
    p.check("i_p_from_z", ok, "c12/pvals_vs_z", det)
    fin = ~np.isnan(pv)
    okr = bool(np.all((pv[fin] >= 0) & (pv[fin] <= 1)))
    p.check("i_p_in_unit_interval", okr, "c12/pvals/range", None if okr else {"p": pv.tolist()})
    rts = p.get("residual_test_stats")
    if rts.ok and rts.value is not None:
        ok, det = cmp.same(rts.value, np.stack([pv, z]), exact=True)
        p.check("i_residual_test_stats", ok, "c12/residual_test_stats", det)
    # a table and its NaN pattern: p is NaN exactly where z is
    p.check("i_p_from_z", bool(np.array_equal(np.isnan(z), np.isnan(pv))), "c12/nan_pattern",
            None)


# ------------------------------------------------------------------------------------- C13


def c13(p, ctx):
    if not p.is_slice:
        return
    shp = p.get("shape").value
    nr, nc = int(shp[0]), int(shp[1])
    if nr == 0 or nc < 2:
        return
    for fam, tn, pn, idx_names in (
            ("prop", "pairwise_significance_t_stats", "pairwise_significance_p_vals",
             ("pairwise_indices", "pairwise_indices_alt")),
            ("means", "pairwise_significance_means_t_stats",
             "pairwise_significance_means_p_vals",
             ("pairwise_means_indices", "pairwise_means_indices_alt"))):
        if ctx.get("indices_first"):
            for nm in idx_names:
                p.get(nm)
        tm, pm = [], []
        okall = True
        for a in range(nc):
            t_, p_ = p.arr(tn, a), p.arr(pn, a)
            if t_ is None or p_ is None or t_.shape != (nr, nc) or p_.shape != (nr, nc):
                okall = False
                break
            tm.append(t_)
            pm.append(p_)
        if not okall:
            p.res.skipped["c13_%s_not_readable" % fam] += 1
            continue
        bad = None
        for a in range(nc):
            sc = tm[a][:, a]
            if not np.all((sc == 0) | np.isnan(sc)):
                bad = bad or {"self": a, "t": sc.tolist()}
            for b in range(a + 1, nc):
                x, y = tm[a][:, b], tm[b][:, a]
                m = np.isfinite(x) & np.isfinite(y)
                if not np.allclose(x[m], -y[m], rtol=1e-9, atol=1e-12):
                    bad = bad or {"a": a, "b": b, "t_ab": x.tolist(), "t_ba": y.tolist()}
                px, py = pm[a][:, b], pm[b][:, a]
                m = np.isfinite(px) & np.isfinite(py)
                if not np.allclose(px[m], py[m], rtol=1e-9, atol=1e-12):
                    bad = bad or {"a": a, "b": b, "p_ab": px.tolist(), "p_ba": py.tolist()}
        p.check("i_antisymmetry", bad is None, "c13/%s/antisymmetry" % fam, bad)
        fin = np.concatenate([x[np.isfinite(x)] for x in pm]) if pm else np.array([])
        p.check("i_p_in_unit_interval", bool(np.all((fin >= 0) & (fin <= 1))),
                "c13/%s/p_range" % fam, None)
        # index sets from p / t
        a1, a2, ol = ctx.get("alpha"), ctx.get("alpha_alt"), ctx.get("only_larger")
        sets = {}
        for nm, alpha in zip(idx_names, (a1, a2)):
            g = p.get(nm)
            if not g.ok or g.value is None:
                continue
            G = np.asarray(g.value, dtype=object)
            if G.shape != (nr, nc):
                continue
            sets[nm] = G
            badi = None
            for r in range(nr):
                for a in range(nc):
                    gs = set(int(x) for x in G[r, a])
                    if a in gs:
                        badi = badi or {"at": [r, a], "why": "contains itself"}
                    if alpha is not None and ol is not None:
                        with np.errstate(invalid="ignore"):
                            sig = pm[a][r, :] < alpha
                            if ol:
                                sig = sig & (tm[a][r, :] < 0)
                        exp = set(int(b) for b in np.where(sig)[0] if b != a)
                        if gs != exp:
                            badi = badi or {"at": [r, a], "got": sorted(gs), "exp": sorted(exp),
                                            "alpha": alpha, "only_larger": ol}
            p.check("i_index_sets", badi is None, "c13/%s/%s" % (fam, nm), badi)
        if len(sets) == 2:
            A, B = sets[idx_names[0]], sets[idx_names[1]]
            ok = all(set(A[r, c]) <= set(B[r, c]) for r in range(nr) for c in range(nc))
            p.check("i_alt_superset", ok, "c13/%s/alt_not_superset" % fam, None)


# ------------------------------------------------------------------------------------- C14


def c14(p, ctx):
    if not p.is_slice:
        return
    for d, opp in (("columns", "row"), ("rows", "column")):
        sd, se = p.arr("%s_scale_mean_stddev" % d), p.arr("%s_scale_mean_stderr" % d)
        margin = p.arr("%s_margin" % d)
        if sd is None or se is None or margin is None:
            continue
        if sd.ndim != 1 or margin.shape != sd.shape:
            continue
        with np.errstate(invalid="ignore", divide="ignore"):
            exp = sd / np.sqrt(margin)
        judge = np.isfinite(margin) & (margin > 0) & np.isfinite(sd)
        _same_where(p, "i_scale_stderr", "c14/%s_scale_mean_stderr" % d, se, exp, judge)


# ------------------------------------------------------------------------------------- C15


def c15(p, ctx):
    if p.is_slice:
        ins_r = set(p.idxs("inserted_row_idxs") or [])
        ins_c = set(p.idxs("inserted_column_idxs") or [])
        for attr, axis in (("row_share_sum", 1), ("column_share_sum", 0)):
            g = p.arr(attr)
            if g is None or g.ndim != 2:
                continue
            base_other = [k for k in range(g.shape[axis]) if k not in (ins_c if axis == 1
                                                                        else ins_r)]
            hidden_possible = ctx.get("display_transforms")
            if hidden_possible:
                continue  # hidden base cells still count in the total
            vec = g[:, base_other] if axis == 1 else g[base_other, :]
            for k in range(g.shape[1 - axis]):
                v = vec[k, :] if axis == 1 else vec[:, k]
                if v.size and np.all(np.isfinite(v)):
                    p.check("i_shares_add_to_one", abs(float(v.sum()) - 1) < 1e-9,
                            "c15/%s/sum_to_one" % attr, {"index": k, "sum": float(v.sum())})
    elif p.is_strand:
        g = p.arr("share_sum")
        if g is None or ctx.get("display_transforms"):
            return
        ins = set(p.idxs("inserted_row_idxs") or [])
        v = np.array([x for i, x in enumerate(g) if i not in ins])
        if v.size and np.all(np.isfinite(v)):
            p.check("i_shares_add_to_one", abs(float(v.sum()) - 1) < 1e-9,
                    "c15/strand/sum_to_one", {"sum": float(v.sum())})


# ------------------------------------------------------------------------------------- C16


def c16(p, ctx):
    if not p.is_slice:
        return
    ci = p.arr("column_index")
    if ci is None or ci.ndim != 2:
        return
    for i in p.idxs("inserted_row_idxs") or []:
        if 0 <= i < ci.shape[0]:
            p.check("i_index_nan_for_subtotals", bool(np.all(np.isnan(ci[i, :]))),
                    "c16/inserted_row_not_nan", None)
    for j in p.idxs("inserted_column_idxs") or []:
        if 0 <= j < ci.shape[1]:
            p.check("i_index_nan_for_subtotals", bool(np.all(np.isnan(ci[:, j]))),
                    "c16/inserted_column_not_nan", None)


# ------------------------------------------------------------------------------------- C17


def c17(p, ctx):
    pop = ctx.get("population")
    if pop is None:
        return
    fr = p.get("population_fraction")
    if not fr.ok:
        return
    frac = float(fr.value)
    names = (("population_counts", "population_proportions", "population_counts_moe",
              "population_std_err") if p.is_slice else
             ("population_counts", "population_proportions", "population_counts_moe",
              "population_proportion_stderrs"))
    cnt, prop, moe, se = (p.arr(n) for n in names)
    if cnt is not None and prop is not None and cnt.shape == prop.shape:
        ok, det = cmp.same(cnt, prop * pop * frac, rtol=1e-9, atol=1e-9)
        p.check("i_population_counts", ok, "c17/population_counts", det)
    if moe is not None and se is not None and moe.shape == se.shape:
        ok, det = cmp.same(moe, Z * pop * frac * se, rtol=1e-9, atol=1e-9)
        p.check("i_population_moe", ok, "c17/population_counts_moe", det)
    if cnt is not None and cnt.ndim == 2:
        for i in p.idxs("diff_row_idxs") or []:
            if 0 <= i < cnt.shape[0]:
                p.check("i_difference_nan", bool(np.all(np.isnan(cnt[i, :]))),
                        "c17/diff_row_not_nan", None)
        for j in p.idxs("diff_column_idxs") or []:
            if 0 <= j < cnt.shape[1]:
                p.check("i_difference_nan", bool(np.all(np.isnan(cnt[:, j]))),
                        "c17/diff_column_not_nan", None)


# ------------------------------------------------------------------------------------- C07


def c07(p, ctx):
    """The two renderings of an order name the same sequence; nothing listed twice."""
    from cr.cube.enums import ORDER_FORMAT

    for nm in ("row_order", "column_order"):
        if not hasattr(p.part, nm):
            continue
        s, b = p.get(nm), p.get(nm, ORDER_FORMAT.BOGUS_IDS)
        if not (s.ok and b.ok):
            p.check("i_order_readable", s.ok == b.ok, "c07/%s/outcome" % nm,
                    {"signed": repr(s)[:200], "bogus": repr(b)[:200]})
            continue
        sv, bv = [int(x) for x in s.value], list(b.value)
        p.check("i_no_duplicates", len(set(sv)) == len(sv), "c07/%s/duplicates" % nm,
                {"order": sv})
        same_len = len(sv) == len(bv)
        kinds_ok = same_len and all(
            (x < 0) == (isinstance(y, str) and str(y).startswith("ins_")) for x, y in zip(sv, bv))
        p.check("i_renderings_agree", kinds_ok, "c07/%s/renderings" % nm,
                None if kinds_ok else {"signed": sv, "bogus": [str(y) for y in bv]})


RELATIONS = {"C02": c02, "C03": c03, "C07": c07, "C11": c11, "C12": c12, "C13": c13, "C14": c14,
             "C15": c15, "C16": c16, "C17": c17}


def run(pid, res, part, ctx, prefix="corpus/"):
    """Evaluate the intrinsic relations of property `pid` on `part`."""
    fn = RELATIONS.get(pid)
    if fn is None:
        return
    fn(P(res, part, prefix), ctx)
