"""Compare every public output of two partitions that ought to be the same analysis."""

import numpy as np

from . import cmp
from .probe import read, snap

IDENTITY_SKIP = {"table_name", "tab_label", "tab_alias", "cube_index", "title",
                 "pairwise_significance_tests", "min_base_size_mask"}


def public_names(obj):
    from cr.cube.util import lazyproperty

    names = []
    for name in dir(type(obj)):
        if name.startswith("_"):
            continue
        attr = None
        for klass in type(obj).__mro__:
            if name in klass.__dict__:
                attr = klass.__dict__[name]
                break
        if isinstance(attr, lazyproperty):
            names.append(name)
    return names


def values_same(a, b, rtol=1e-9, atol=1e-12):
    """(ok, detail) for two public values of any kind."""
    if a is None or b is None:
        return (a is None and b is None), {"A": snap(a), "B": snap(b)}
    try:
        aa, bb = np.asarray(a), np.asarray(b)
    except Exception:
        ok = snap(a) == snap(b)
        return ok, (None if ok else {"A": snap(a), "B": snap(b)})
    if aa.dtype.kind in "OUS" or bb.dtype.kind in "OUS" or aa.dtype == bool:
        ok = aa.shape == bb.shape and snap(aa) == snap(bb)
        return ok, (None if ok else {"A": snap(aa), "B": snap(bb)})
    try:
        return cmp.same(aa.astype(float), bb.astype(float), rtol=rtol, atol=atol)
    except Exception:
        ok = snap(a) == snap(b)
        return ok, (None if ok else {"A": snap(a), "B": snap(b)})


def compare_partitions(res, pa, pb, monitor, prefix, skip=(), methods=True):
    """Every public lazyproperty (and the order / pairwise methods) of pa vs pb."""
    skip = set(skip) | IDENTITY_SKIP
    n = 0
    for name in public_names(pa):
        if name in skip:
            continue
        ga, gb = read(pa, name), read(pb, name)
        if not ga.ok or not gb.ok:
            same_exc = (not ga.ok) and (not gb.ok) and type(ga.exc) is type(gb.exc)
            res.check(monitor, same_exc, "%s/outcome/%s" % (prefix, name),
                      {"A": repr(ga)[:200], "B": repr(gb)[:200]})
            continue
        ok, det = values_same(ga.value, gb.value)
        res.check(monitor, ok, "%s/%s" % (prefix, name), det)
        n += 1
    ma, mb = read(pa, "min_base_size_mask"), read(pb, "min_base_size_mask")
    if ma.ok and mb.ok:
        if hasattr(ma.value, "row_mask"):
            for a in ("row_mask", "column_mask", "table_mask"):
                ok, det = values_same(read(ma.value, a).value, read(mb.value, a).value)
                res.check(monitor, ok, "%s/min_base_size_mask.%s" % (prefix, a), det)
        else:
            ok, det = values_same(ma.value, mb.value)
            res.check(monitor, ok, "%s/min_base_size_mask" % prefix, det)
    if methods:
        from cr.cube.enums import ORDER_FORMAT

        for fn in ("row_order", "column_order"):
            if hasattr(pa, fn):
                for fmt in (ORDER_FORMAT.SIGNED_INDEXES, ORDER_FORMAT.BOGUS_IDS):
                    ga, gb = read(pa, fn, fmt), read(pb, fn, fmt)
                    ok = ga.ok == gb.ok and (not ga.ok or snap(ga.value) == snap(gb.value))
                    res.check(monitor, ok, "%s/%s(%s)" % (prefix, fn, fmt.name),
                              {"A": repr(ga)[:200], "B": repr(gb)[:200]})
        shp = read(pa, "shape")
        if shp.ok and len(shp.value) == 2 and shp.value[1] > 0:
            j = shp.value[1] // 2
            for fn in ("pairwise_significance_t_stats", "pairwise_significance_p_vals"):
                ga, gb = read(pa, fn, j), read(pb, fn, j)
                if ga.ok and gb.ok:
                    ok, det = values_same(ga.value, gb.value, rtol=1e-8, atol=1e-10)
                    res.check(monitor, ok, "%s/%s" % (prefix, fn), det)
                else:
                    res.check(monitor, ga.ok == gb.ok, "%s/outcome/%s" % (prefix, fn),
                              {"A": repr(ga)[:200], "B": repr(gb)[:200]})
    return n
