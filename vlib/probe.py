"""Probe layer (DESIGN.md 2.4): boundary reads, reach map, canonical snapshots.

* `read(obj, attr, *args)`: one public read at the client boundary. The event is counted (and
  appended to the active trace when one is recording) before the value is handed to a monitor.
* `install_reach()`: wraps the `factory` / `display_order` class methods of the tree under test
  so that a run can tell which extractor / collator classes its cases really instantiated.
* `snap(value)`: canonical, JSON-able snapshot of anything the public API returns.
"""

import collections
import functools
import threading

import numpy as np

COUNTERS = collections.Counter()
REACH = collections.Counter()
_trace = threading.local()


class Outcome:
    """Value or exception of one read."""

    __slots__ = ("ok", "value", "exc")

    def __init__(self, ok, value=None, exc=None):
        self.ok = ok
        self.value = value
        self.exc = exc

    @property
    def exc_name(self):
        return None if self.exc is None else type(self.exc).__name__

    def __repr__(self):
        return "Outcome(%s)" % (repr(self.value) if self.ok else "raised %s: %s" % (
            self.exc_name, self.exc))


def start_trace():
    _trace.events = []
    return _trace.events


def stop_trace():
    ev = getattr(_trace, "events", None)
    _trace.events = None
    return ev


def read(obj, attr, *args):
    """Read public attribute / call public method `attr` of `obj`; never raises."""
    COUNTERS["events"] += 1
    try:
        v = getattr(obj, attr)
        if args or (callable(v) and not isinstance(v, np.ndarray) and hasattr(v, "__func__")):
            v = v(*args)
        out = Outcome(True, v)
    except Exception as e:  # noqa - the boundary monitor decides what an exception means
        out = Outcome(False, exc=e)
    ev = getattr(_trace, "events", None)
    if ev is not None:
        ev.append((type(obj).__name__, attr, args, out.ok, None if out.ok else out.exc_name))
    return out


def value(obj, attr, *args):
    """read() that re-raises: for reads whose failure is the harness's problem to report."""
    o = read(obj, attr, *args)
    if not o.ok:
        raise o.exc
    return o.value


# --------------------------------------------------------------------------------- snap


def snap(v):
    """Canonical nested-list snapshot (NaN -> "nan", ±inf -> "inf"/"-inf")."""
    if v is None or isinstance(v, (bool, str)):
        return v
    if isinstance(v, (int, np.integer)):
        return int(v)
    if isinstance(v, (float, np.floating)):
        f = float(v)
        if f != f:
            return "nan"
        if f in (float("inf"), float("-inf")):
            return "inf" if f > 0 else "-inf"
        return f
    if isinstance(v, np.ndarray):
        if v.dtype == object or v.dtype.kind in "US":
            return [snap(x) for x in v.tolist()] if v.ndim else snap(v.item())
        return snap(v.tolist())
    if isinstance(v, (list, tuple)):
        return [snap(x) for x in v]
    if isinstance(v, (set, frozenset)):
        return sorted((snap(x) for x in v), key=repr)
    if isinstance(v, dict):
        return {str(k): snap(x) for k, x in v.items()}
    if type(v).__name__ == "MinBaseSizeMask":
        out = {}
        for nm in ("row_mask", "column_mask", "table_mask"):
            g = read(v, nm)  # the masks are lazy: reading one is a boundary read of its own
            out[nm] = snap(g.value) if g.ok else "raises %s" % g.exc_name
        return out
    if hasattr(v, "name") and hasattr(v, "value") and not callable(v.value):
        return "%s.%s" % (type(v).__name__, v.name)  # enum member
    if hasattr(v, "name") and type(v).__name__ == "_DimensionType":
        return "DT.%s" % v.name
    return "<%s>" % type(v).__name__


# -------------------------------------------------------------------------------- reach

_installed = False


def _wrap_factory(cls, name, label):
    orig = cls.__dict__[name]
    fn = orig.__func__

    @functools.wraps(fn)
    def wrapper(c, *a, **k):
        res = fn(c, *a, **k)
        REACH["%s:%s" % (label, type(res).__name__)] += 1
        return res

    setattr(cls, name, classmethod(wrapper))


def _wrap_order(cls):
    orig = cls.__dict__["display_order"]
    fn = orig.__func__

    @functools.wraps(fn)
    def wrapper(c, *a, **k):
        REACH["collator:%s" % c.__name__] += 1
        return fn(c, *a, **k)

    setattr(cls, "display_order", classmethod(wrapper))


def install_reach():
    """Idempotently wrap factories of the tree under test to fill REACH."""
    global _installed
    if _installed:
        return
    _installed = True
    try:
        from cr.cube.matrix import cubemeasure as mcm
        from cr.cube.stripe import cubemeasure as scm
        from cr.cube import collator

        for mod, label in ((mcm, "matrix"), (scm, "stripe")):
            for name in dir(mod):
                cls = getattr(mod, name)
                if isinstance(cls, type) and name.startswith("_Base") and \
                        "factory" in cls.__dict__:
                    _wrap_factory(cls, "factory", "%s.%s" % (label, name))
        for name in ("_BaseAnchoredCollator", "SortByValueCollator"):
            cls = getattr(collator, name, None)
            if cls is not None and "display_order" in cls.__dict__:
                _wrap_order(cls)
    except Exception as e:  # a refactor removed the names: reach stays empty -> inconclusive
        REACH["install_error:%s" % type(e).__name__] += 1
