"""C01 - cell values are faithful tabulations of the survey behind the response (R monitor)."""

import numpy as np

from .. import cases, cmp, expect, gen, sim
from ..harness import CaseResult
from ..probe import read

ID = "C01"
TITLE = "Cell values are faithful tabulations of the survey behind the response"
RULE = (
    "W1 synthetic surveys: template (dimension-type pairing, 0/1/2/3-D) round-robin over "
    "%d templates x weighting mode x measure set, everything else random (0-60 respondents, "
    "1-5 valid and 0-3 missing elements per dimension anywhere in the payload, typedef "
    "'order', dyadic weights incl. zeros). A case is non-trivial when every dimension has >= 2 "
    "valid elements, N >= 5 and at least one missing category / missing answer is present. "
    "In half of the cases every public property of a partition is read, in random order, "
    "before its tabulations. Distinct = distinct sha256 of the complete case." % (
        len(cases.TEMPLATES_1D) + len(cases.TEMPLATES_2D) + len(cases.TEMPLATES_3D) + 1))
ASSUMPTIONS = [
    "the response builder (vlib/sim.py) lays tensors out as the Crunch back end does "
    "(calibrated against tests/fixtures shapes; not validated against a live server)",
    "numeric measures are pass-through: the oracle recomputes the same respondent-level "
    "statistic per cell by set membership and expects it at the same cell",
]
TEMPLATES = cases.TEMPLATES_1D + cases.TEMPLATES_2D + cases.TEMPLATES_3D + ["nub"]
MEASURE_SETS = [(), ("mean",), ("sum",), ("stddev", "mean"), ("median",),
                ("valid_counts", "mean"), ("valid_counts", "sum", "stddev")]
WEIGHTS = ["none", "frac", "zeros", "unit8", "scales", "tiny"]
REQUIRED_REACH = [
    "counts", "unweighted_counts", "numeric", "cube_level", "strand", "nub",
    "matrix._BaseCubeCounts:_CatXCatCubeCounts", "matrix._BaseCubeCounts:_CatXMrCubeCounts",
    "matrix._BaseCubeCounts:_MrXCatCubeCounts", "matrix._BaseCubeCounts:_MrXMrCubeCounts",
    "matrix._BaseCubeCounts:_ArrXCatCubeCounts", "matrix._BaseCubeCounts:_CatXArrCubeCounts",
    "matrix._BaseCubeCounts:_ArrXMrCubeCounts", "matrix._BaseCubeCounts:_MrXArrCubeCounts",
    "stripe._BaseCubeCounts:_CatCubeCounts", "stripe._BaseCubeCounts:_MrCubeCounts",
    "stripe._BaseCubeCounts:_NumArrCubeCounts",
    "class:table=MR", "class:table=CAT", "class:table=ARR",
    "class:near_logical_cat", "class:near_logical_array", "filtercols",
    "class:augmented_missing_not_last", "class:read_prelude",
]
BATCH = 60


def units(tier, seed):
    n = 900 if tier == "quick" else 60000
    # multi-table with single-column filter cubes re-aligned by the library (vlib/filtercols.py)
    fc = [{"fc": k, "seed": seed} for k in range(80 if tier == "quick" else 3000)]
    return [{"i": i, "seed": seed} for i in range(n)] + fc


def make_case(unit):
    if "fc" in unit:
        from .. import filtercols
        return filtercols.make_case(gen.G("C01/fc/%s/%s" % (unit["seed"], unit["fc"])), "C01")
    i = unit["i"]
    g = gen.G("C01/%s/%s" % (unit["seed"], i))
    template = TEMPLATES[i % len(TEMPLATES)]
    j = i // len(TEMPLATES)
    wmode = WEIGHTS[j % len(WEIGHTS)]
    mset = MEASURE_SETS[gen.stratum(ID, i, 1, len(MEASURE_SETS))]
    N = g.pick([0, 1, 2, 5, 8, 13, 21, 34, 55, 60, 40, 30])
    if template == "nub":
        facets = []
        numvar = g.num(N)
        spec = sim.CubeSpec(facets, g.weights(N, wmode), ("mean",), numvar)
        return {"template": template, "spec": sim.spec_to_dict(spec)}
    square = g.pick([None, None, None, 2, 3]) if "numarr" not in template else None
    facets = cases.random_facets(g, template, N, square=square)
    cases.entangle_some(g, facets)
    w = g.weights(N, wmode)
    if "numarr" in template:
        mset = tuple(m for m in (mset or ("mean",)) if m != "valid_counts") or ("mean",)
        spec = sim.CubeSpec(facets, w, mset)
    else:
        numvar = g.num(N) if mset else None
        spec = sim.CubeSpec(facets, w, mset, numvar)
    return {"template": template, "spec": sim.spec_to_dict(spec)}


STATS = {"means": "mean", "sums": "sum", "stddev": "stddev", "medians": "median"}


def _grid(o, dims, fn):
    shape = [o.n_valid(d) for d in dims]
    out = np.empty(shape)
    for idx in np.ndindex(*shape):
        out[idx] = fn(dict(zip(dims, idx)))
    return out


def _labels_expected(o, d):
    role, var = o.facets[d]
    if role in ("cat", "ca_cats"):
        if getattr(var, "kind", "cat") in ("text", "datetime", "binned"):
            return None
        return [c["name"] for c in var.valid_cats]
    return [it["name"] for it in var.items]


def check_case(case):
    if case.get("mode") == "filtercols":
        from .. import filtercols
        return filtercols.check(case, ID)
    res = CaseResult()
    L = cases.realize(case)
    o, spec, cube = L.oracle, L.spec, L.cube
    nd = o.ndim
    weighted = spec.weight is not None
    res.descriptor = cases.describe(case)
    has_missing = any(
        (r in ("cat", "ca_cats") and any(c.get("missing") for c in v.cats))
        or (r == "mr" and (v.state == sim.MIS).any())
        or (r == "numarr" and np.isnan(v.x).any())
        for r, v in o.facets)
    res.nontrivial = (nd >= 1 and all(o.n_valid(d) >= 2 for d in range(nd))
                      and o.N >= 5 and has_missing)
    res.classes.append("ndim=%d" % nd)
    if nd == 3:
        res.classes.append("table=%s" % o.typestr(0))
    if nd >= 2:
        res.classes.append("pair=%sx%s" % (o.typestr(nd - 2), o.typestr(nd - 1)))
    for r, v in o.facets:
        if r in ("cat", "ca_cats") and getattr(v, "kind", "cat") != "logical" and {
                1, 0, -1} <= set(c["id"] for c in v.cats) and any(
                c.get("selected") for c in v.cats):
            # a 0/1-coded variable that is not a selection dimension (vlib/gen.py)
            res.classes.append("near_logical_%s" % ("array" if r == "ca_cats" else "cat"))
    measures = [m for m in ("mean", "sum", "stddev", "median") if m in spec.measures]

    parts = read(cube, "partitions")
    if not res.check("partitions_readable", parts.ok, "exception/partitions",
                     {"exc": repr(parts.exc)}):
        return res
    parts = parts.value
    exp_n = 1 if nd < 3 else o.n_valid(0)
    res.check("partition_count", len(parts) == exp_n, "partition_count",
              {"got": len(parts), "exp": exp_n})

    # ---- 0-D -----------------------------------------------------------------------
    if nd == 0:
        nub = parts[0]
        uc = read(nub, "unweighted_count")
        exp = float((~np.isnan(spec.numvar.x)).sum()) if o.xok is not None else float(o.N)
        ok, det = cmp.scalar_same(uc.value if uc.ok else None, exp, exact=True)
        res.check("nub", uc.ok and ok, "nub/unweighted_count", det)
        m = read(nub, "means")
        ok, det = cmp.scalar_same(m.value if m.ok else None, o.numeric({}, "mean"))
        res.check("nub", m.ok and ok, "nub/means", det)
        return res

    # ---- cube level: full valid grid incl. MR selection axes ---------------------------
    _cube_level(res, cube, o, weighted)

    # ---- partitions ---------------------------------------------------------------------
    for t, part in enumerate(parts[:exp_n]):
        if nd == 1:
            dims, fixed = [0], {}
            kind = "strand"
        else:
            dims, fixed = [nd - 2, nd - 1], ({0: t} if nd == 3 else {})
            kind = "slice"
        res.monitors[kind] += 1
        # in half of the cases every public property of the partition is read first, in a random
        # order: the tabulations must not depend on what was computed before them
        if expect.prelude(L, part, p=0.5, k=1000):
            res.classes.append("read_prelude")

        def cell(fn):
            return _grid(o, dims, lambda s: fn({**fixed, **s}))

        for attr, wt in (("counts", True), ("unweighted_counts", False)):
            got = read(part, attr)
            exp = cell(lambda s: o.total(s, (), wt and weighted))
            ok, det = cmp.same(got.value, exp, exact=True) if got.ok else (
                False, {"exc": repr(got.exc)})
            res.check(attr, ok, "%s/%s" % (kind, attr), det)
        for attr, stat in STATS.items():
            got = read(part, attr)
            if stat in measures:
                exp = cell(lambda s: o.numeric(s, stat))
                ok, det = cmp.same(got.value, exp, rtol=1e-9, atol=1e-9) if got.ok else (
                    False, {"exc": repr(got.exc)})
                res.check("numeric", ok, "%s/%s" % (kind, attr), det)
            else:
                # documented behaviour: ValueError when the response has no such measure
                res.check("absent_measure_raises",
                          (not got.ok) and isinstance(got.exc, ValueError),
                          "%s/%s/absent" % (kind, attr), {"outcome": repr(got)[:200]})
        # labels: no missing category surfaces, extents agree
        for axis, d in enumerate(dims):
            names = _labels_expected(o, d)
            got = read(part, "row_labels" if axis == 0 else "column_labels")
            if names is not None:
                res.check("labels", got.ok and list(got.value) == names,
                          "%s/labels" % kind, {"got": repr(got)[:300], "exp": names})
            else:
                res.check("labels", got.ok and len(got.value) == o.n_valid(d),
                          "%s/labels_len" % kind, {"got": repr(got)[:300]})
        shp = read(part, "shape")
        res.check("shape", shp.ok and tuple(shp.value) == tuple(o.n_valid(d) for d in dims),
                  "%s/shape" % kind, {"got": repr(shp)[:100]})
    return res


def _cube_level(res, cube, o, weighted):
    """Cube.counts / unweighted_counts / means ... on the full grid of valid elements."""
    nd = o.ndim
    # axes of the cube-level arrays: one per dimension, MR adds a (selected, other) axis
    axes = []
    for d in range(nd):
        axes.append(("elem", d))
        if o.facets[d][0] == "mr":
            axes.append(("state", d))
    shape = [o.n_valid(d) if k == "elem" else 2 for k, d in axes]

    def grid(fn):
        out = np.empty(shape)
        for idx in np.ndindex(*shape):
            sel, other = {}, set()
            for (k, d), v in zip(axes, idx):
                if k == "elem":
                    sel[d] = v
                elif v == 1:
                    other.add(d)
            out[idx] = fn(sel, other)
        return out

    for attr, wt in (("counts", True), ("unweighted_counts", False)):
        got = read(cube, attr)
        exp = grid(lambda s, oth: o.total(s, (), wt and weighted, mr_other=oth))
        ok, det = cmp.same(got.value, exp, exact=True) if got.ok else (
            False, {"exc": repr(got.exc)})
        res.check("cube_level", ok, "cube/%s" % attr, det)
    got = read(cube, "weighted_counts")
    if weighted and got.ok and got.value is not None:
        exp = grid(lambda s, oth: o.total(s, (), True, mr_other=oth))
        ok, det = cmp.same(got.value, exp, exact=True)
        res.check("cube_level", ok, "cube/weighted_counts", det)

TECHNIQUE = "reference-model runtime monitor (public reads vs respondent-level oracle)"
DESIGN_REF = "DESIGN.md 4 C01; 2.1-2.3"
