"""C02 - bases and margins count exactly the respondents eligible for the denominator (R + I)."""

import numpy as np

from .. import cases, cmp, corpus, gen, sim, expect, w4
from ..harness import CaseResult
from ..probe import read

ID = "C02"
TITLE = "Bases and margins count exactly the respondents eligible for the denominator"
# a numeric-array strand is the only non-MR strand whose rows have bases of their own
TEMPLATES = cases.TEMPLATES_1D + cases.TEMPLATES_2D + cases.TEMPLATES_3D + ["numarr"] * 4
RULE = (
    "W1 synthetic surveys, %d templates round-robin x weighting mode x {no insertions, sum "
    "subtotals, sum+difference subtotals}; per-item missingness differs by item, members of a "
    "random row element are forced missing on the opposing variable in 35%% of cases; the "
    "minimum-base threshold is drawn at, just below and just above an actual unweighted base. "
    "Non-trivial: >= 2 valid elements per dimension, N >= 5 and at least one respondent is "
    "missing on some dimension (otherwise every base coincides with the table total)."
    % len(TEMPLATES))
ASSUMPTIONS = [
    "response builder models the back end's tensor layout (see C01)",
    "'eligible' is read per pairing as in DESIGN.md 2.3: freeing a categorical dimension = any "
    "valid category, freeing an MR dimension = selected or other on that item, an array item "
    "dimension is never freed",
]
WEIGHTS = ["none", "frac", "zeros", "scales", "tiny"]
INS = ["none", "sum", "diff"]
REQUIRED_REACH = [
    "bases2d", "margins", "table_scalar", "ranges", "mask", "strand_bases",
    "class:pair=CATxCAT", "class:pair=CATxMR", "class:pair=MRxCAT", "class:pair=MRxMR",
    "class:pair=ARRxCAT", "class:pair=CATxARR", "class:pair=ARRxMR", "class:pair=MRxARR",
    "class:ins=sum", "class:ins=diff", "class:numarr_strand_mixed_mask",
]
BATCH = 60
RULE = RULE + corpus.RULE_SUFFIX + w4.RULE_SUFFIX
REQUIRED_REACH = list(REQUIRED_REACH) + ["class:corpus", "class:w4", "filtercols_mask",
                                         "class:augmented"]


def units(tier, seed):
    n = 900 if tier == "quick" else 60000
    # W1 synthetic surveys, then W3 (fixture corpus) and W4 (integration tests as workload)
    fc = [{"fc": k, "seed": seed} for k in range(80 if tier == "quick" else 3000)]
    return [{"i": i, "seed": seed} for i in range(n)] + fc + corpus.units(tier, seed) + \
        w4.units(tier, seed)


def make_case(unit):
    if "corpus" in unit:
        return corpus.make_case(ID, unit)
    if "w4" in unit:
        return w4.make_case(ID, unit)
    if "fc" in unit:
        from .. import filtercols
        return filtercols.make_case(gen.G("C02/fc/%s/%s" % (unit["seed"], unit["fc"])), "C02")
    i = unit["i"]
    g = gen.G("C02/%s/%s" % (unit["seed"], i))
    template = TEMPLATES[i % len(TEMPLATES)]
    j = i // len(TEMPLATES)
    wmode = WEIGHTS[j % len(WEIGHTS)]
    ins = INS[gen.stratum(ID, i, 1, len(INS))]
    N = g.pick([0, 1, 3, 6, 10, 16, 25, 40, 60, 30, 20])
    facets = cases.random_facets(g, template, N, square=g.pick([None, None, 2, 3])
                                 if "numarr" not in template else None)
    cases.entangle_some(g, facets)
    transforms = {}
    labels = []
    if ins != "none":
        labels = cases.attach_insertions(g, facets, transforms, allow_diff=(ins == "diff"),
                                         hide_some=False)
    w = g.weights(N, wmode)
    if "numarr" in template:
        spec = sim.CubeSpec(facets, w, ("mean",))
    else:
        spec = sim.CubeSpec(facets, w, ())
    case = {"template": template, "spec": sim.spec_to_dict(spec), "transforms": transforms,
            "ins": ins, "ins_labels": labels, "mask_pick": [g.r.random(), g.r.random(),
                                                           g.r.choice([-1, 0, 1])]}
    return case


def _mask_size(o, pick):
    """A threshold at / just below / just above an actual unweighted base of the table."""
    nd = o.ndim
    if nd == 0:
        return 0
    sel = {}
    for d in range(nd):
        n = o.n_valid(d)
        if n == 0:
            return 1
        sel[d] = int(pick[d % 2] * n) % n
    free = (nd - 1,) if nd >= 2 else (0,)
    b = o.total(sel, free, False)
    return max(0, int(b) + pick[2])


def check_case(case):
    if "fixture" in case:
        return corpus.check_case(ID, case)
    if case.get("w4"):
        return w4.check_case(ID, case)
    if case.get("mode") == "filtercols":
        from .. import filtercols
        return filtercols.check(case, ID)
    res = CaseResult()
    L0 = cases.realize(case)
    o, spec = L0.oracle, L0.spec
    msize = _mask_size(o, case["mask_pick"])
    L = cases.realize(case, {"mask_size": msize})
    cube = L.cube
    nd = o.ndim
    res.descriptor = cases.describe(case, {"mask_size": msize})
    any_missing = any(
        (r in ("cat", "ca_cats") and np.isin(
            v.ans, [j for j, c in enumerate(v.cats) if c.get("missing")]).any())
        or (r == "mr" and (v.state == sim.MIS).any())
        or (r == "numarr" and np.isnan(v.x).any())
        for r, v in o.facets)
    res.nontrivial = all(o.n_valid(d) >= 2 for d in range(nd)) and o.N >= 5 and any_missing
    res.classes.append("ndim=%d" % nd)
    res.classes.append("ins=%s" % case["ins"])
    if nd >= 2:
        res.classes.append("pair=%sx%s" % (o.typestr(nd - 2), o.typestr(nd - 1)))
    parts = read(cube, "partitions")
    if not res.check("partitions_readable", parts.ok, "exception/partitions",
                     {"exc": repr(parts.exc)}):
        return res
    for t, part in enumerate(parts.value):
        if nd == 1:
            _strand(res, L, part, msize)
        else:
            _slice(res, L, t, part, msize)
    return res


def _cmp(res, monitor, key, got, exp, exact=True):
    if not got.ok:
        return res.check(monitor, False, key + "/exception", {"exc": repr(got.exc)})
    ok, det = cmp.same(got.value, exp, exact=exact)
    return res.check(monitor, ok, key, det)


def _slice(res, L, t, part, msize):
    V = expect.SliceView(L, t, part)
    nr, nc = len(V.rows), len(V.cols)
    B = {}
    for direction, name in (("row", "row"), ("col", "column"), ("table", "table")):
        for wt, wname in ((True, "weighted"), (False, "unweighted")):
            attr = "%s_%s_bases" % (name, wname)
            exp = V.bases(direction, wt)
            B[(direction, wt)] = exp
            _cmp(res, "bases2d", "slice/%s%s" % (attr, _blk(V)), read(part, attr), exp)
    if nr == 0 or nc == 0:
        return
    # ---- collapsed forms (I): margins ------------------------------------------------
    col_is_cat = V.col_type == "CAT"
    row_is_cat = V.row_type == "CAT"
    for attr, direction, wt, one_d, axis in (
            ("rows_margin", "row", True, col_is_cat, 0),
            ("rows_base", "row", False, col_is_cat, 0),
            ("columns_margin", "col", True, row_is_cat, 1),
            ("columns_base", "col", False, row_is_cat, 1)):
        full = B[(direction, wt)]
        exp = (full[:, 0] if axis == 0 else full[0, :]) if one_d else full
        if one_d:
            # a 1-D margin is only the collapsed form if the 2-D bases really repeat
            rep = np.broadcast_to(exp[:, None] if axis == 0 else exp[None, :], full.shape)
            okrep, _ = cmp.same(full, rep, exact=True)
            res.check("margin_collapsible", okrep, "slice/%s/not_collapsible" % attr,
                      {"bases": full.tolist()})
        _cmp(res, "margins", "slice/%s" % attr, read(part, attr), exp)
    # ---- table base / margin ------------------------------------------------------------
    for attr, wt in (("table_margin", True), ("table_base", False)):
        full = B[("table", wt)]
        got = read(part, attr)
        if row_is_cat and col_is_cat:
            exp = full[0, 0]
            okrep = np.all(full == full[0, 0])
        elif row_is_cat:  # one value per column
            exp = full[0, :]
            okrep = np.array_equal(full, np.broadcast_to(exp[None, :], full.shape))
        elif col_is_cat:
            exp = full[:, 0]
            okrep = np.array_equal(full, np.broadcast_to(exp[:, None], full.shape))
        else:
            exp, okrep = full, True
        res.check("margin_collapsible", bool(okrep), "slice/%s/not_collapsible" % attr,
                  {"bases": full.tolist()})
        _cmp(res, "table_scalar", "slice/%s" % attr, got, exp)
    # ---- ranges: [min, max] of per-cell table bases over base cells before hiding ---------
    o = V.o
    for attr, wt in (("table_margin_range", True), ("table_base_range", False)):
        vals = [o.base(V.sel(r, c), (V.R, V.C), wt and V.weighted)
                for r in range(o.n_valid(V.R)) for c in range(o.n_valid(V.C))]
        exp = np.array([min(vals), max(vals)]) if vals else None
        got = read(part, attr)
        if exp is not None:
            _cmp(res, "ranges", "slice/%s" % attr, got, exp)
    # ---- minimum-base mask -----------------------------------------------------------------
    m = read(part, "min_base_size_mask")
    if res.check("mask", m.ok, "slice/mask/exception", {"exc": repr(m.exc)}):
        for mname, direction in (("row_mask", "row"), ("column_mask", "col"),
                                 ("table_mask", "table")):
            got = read(m.value, mname)
            ub = B[(direction, False)]
            with np.errstate(invalid="ignore"):
                exp = ub < msize
            ok = got.ok and np.array_equal(np.asarray(got.value, dtype=bool), exp)
            res.check("mask", ok, "slice/mask/%s" % mname,
                      {"threshold": msize, "bases": ub.tolist(),
                       "got": repr(got.value if got.ok else got.exc)[:300]})


def _blk(V):
    return ""


def _strand(res, L, part, msize):
    o = L.oracle
    tr = L.case.get("transforms") or {}
    subs = expect.resolved_subtotals(o, 0, tr.get("rows_dimension"))
    order = [int(x) for x in read(part, "row_order").value]
    weighted = L.spec.weight is not None

    def base_of(e, wt):
        if e >= 0:
            return o.base({0: e}, (0,), wt and weighted)
        # a strand has one direction only: every subtotal row shows the table base
        return o.base({0: 0}, (0,), wt and weighted) if o.n_valid(0) else float("nan")

    for attr, wt in (("weighted_bases", True), ("unweighted_bases", False)):
        exp = np.array([base_of(e, wt) for e in order])
        _cmp(res, "strand_bases", "strand/%s" % attr, read(part, attr), exp)
    n = o.n_valid(0)
    for attr, wt in (("table_margin_range", True), ("table_base_range", False)):
        vals = [o.base({0: e}, (0,), wt and weighted) for e in range(n)]
        if vals:
            _cmp(res, "ranges", "strand/%s" % attr, read(part, attr),
                 np.array([min(vals), max(vals)]))
    exp = np.array([base_of(e, False) for e in order]) < msize
    got = read(part, "min_base_size_mask")
    if exp.any() and not exp.all() and o.facets[0][0] == "numarr":
        res.classes.append("numarr_strand_mixed_mask")
    res.check("mask", got.ok and np.array_equal(np.asarray(got.value, dtype=bool), exp),
              "strand/mask", {"threshold": msize, "got": repr(got)[:300],
                              "exp": exp.tolist()})
    # rows_base / rows_margin are the strand's counts (uniform access with slices)
    for attr, wt in (("rows_margin", True), ("rows_base", False)):
        exp = []
        for e in order:
            el = e if e >= 0 else ("sub", tuple(subs[e + len(subs)]["addends"]),
                                   tuple(subs[e + len(subs)]["subtrahends"]))
            exp.append(o.count({0: el}, wt and weighted))
        _cmp(res, "margins", "strand/%s" % attr, read(part, attr), np.array(exp))

TECHNIQUE = ("reference-model + intrinsic runtime monitors (bases vs oracle; collapsed forms)"
             + corpus.TECHNIQUE_SUFFIX)
DESIGN_REF = "DESIGN.md 4 C02; 2.3"
