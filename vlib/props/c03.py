"""C03 - proportions are count over base, bounded, and sum to one (I + R)."""

import copy
import warnings

import numpy as np

from .. import cases, cmp, corpus, gen, sim, expect, w4
from ..harness import CaseResult
from ..probe import read

ID = "C03"
TITLE = "Proportions are count over base, bounded, and sum to one"
TEMPLATES = cases.TEMPLATES_1D + cases.TEMPLATES_2D + cases.TEMPLATES_3D
RULE = (
    "W1 synthetic surveys over %d templates x weighting x {none, sum, sum+difference "
    "insertions} x {no hides, element hides}; zero bases are forced (members of a row element "
    "made missing on the opposing variable, all-zero tables, N = 0 and N = 1). Every read is "
    "repeated on a fresh partition with warnings turned into errors. Non-trivial: >= 2 valid "
    "elements per dimension, N >= 5 and at least one proportion strictly between 0 and 1."
    % len(TEMPLATES))
ASSUMPTIONS = [
    "response builder as in C01; eligibility rules as in C02",
    "vectors that are differences on a categorical-date dimension are compared by C04, not here",
]
TECHNIQUE = "reference-model + intrinsic runtime monitors (count/base identity, bounds, sums)"
DESIGN_REF = "DESIGN.md 4 C03"
WEIGHTS = ["none", "frac", "zeros", "float", "scales", "tiny"]
INS = ["none", "sum", "diff"]
REQUIRED_REACH = [
    "prop_vs_oracle", "percent_is_100x", "bounded", "nan_iff_zero_base", "sum_to_one",
    "margin_proportion", "strand_prop", "warnings_as_errors", "class:zero_base",
    "class:hides", "class:pair=CATxMR", "class:pair=MRxMR", "class:pair=ARRxCAT",
]
BATCH = 50
RULE = RULE + corpus.RULE_SUFFIX + w4.RULE_SUFFIX
REQUIRED_REACH = list(REQUIRED_REACH) + ["class:corpus", "class:w4"]
TECHNIQUE = TECHNIQUE + corpus.TECHNIQUE_SUFFIX


def units(tier, seed):
    n = 800 if tier == "quick" else 50000
    # W1 synthetic surveys, then W3: the fixture corpus under the intrinsic relations
    return [{"i": i, "seed": seed} for i in range(n)] + corpus.units(tier, seed) + w4.units(tier, seed)


def make_case(unit):
    if "corpus" in unit:
        return corpus.make_case(ID, unit)
    if "w4" in unit:
        return w4.make_case(ID, unit)
    i = unit["i"]
    g = gen.G("C03/%s/%s" % (unit["seed"], i))
    template = TEMPLATES[i % len(TEMPLATES)]
    j = i // len(TEMPLATES)
    wmode = WEIGHTS[j % len(WEIGHTS)]
    ins = INS[gen.stratum(ID, i, 1, len(INS))]
    N = g.pick([0, 1, 2, 6, 10, 16, 25, 40, 60, 30])
    facets = cases.random_facets(g, template, N)
    if g.chance(0.45):
        cases.entangle_some(g, facets)
        cases.entangle_some(g, facets)
    transforms = {}
    if ins != "none":
        cases.attach_insertions(g, facets, transforms, allow_diff=(ins == "diff"))
    hides = False
    if g.chance(0.3):
        hides = _add_hides(g, facets, transforms)
    w = g.weights(N, wmode)
    if g.chance(0.05) and w is not None:
        w = w * 0.0  # all-zero weighted table with a positive unweighted one
    if wmode == "float" and g.chance(0.5):
        cases.add_total_subtotals(facets, transforms)
    spec = sim.CubeSpec(facets, w, ("mean",) if "numarr" in template else ())
    return {"template": template, "spec": sim.spec_to_dict(spec), "transforms": transforms,
            "ins": ins, "hides": hides, "mask_size": cases.mask_size_for(ID, i)}


def _add_hides(g, facets, transforms):
    lf = cases.library_order_facets(facets)
    nd = len(lf)
    did = False
    for key, (role, var) in (("rows_dimension", lf[nd - 2] if nd >= 2 else lf[0]),
                             ("columns_dimension", lf[nd - 1] if nd >= 2 else (None, None))):
        if role is None or not g.chance(0.6):
            continue
        if role in ("cat", "ca_cats") and getattr(var, "kind", "cat") in (
                "cat", "cat_date", "logical", "ca_cats", "text", "binned"):
            ids = [c["id"] for c in (var.cats if role == "ca_cats" else var.axis_cats)
                   if not c.get("missing")]
        elif role in ("mr", "ca_items", "numarr"):
            ids = [it["alias"] for it in var.items]
        else:
            continue
        if not ids:
            continue
        k = g.r.randint(1, max(1, len(ids) - 1))
        els = {}
        for eid in g.r.sample(ids, min(k, len(ids))):
            els[str(eid)] = {"hide": True}
        transforms.setdefault(key, {})["elements"] = els
        did = True
    return did


def check_case(case):
    if "fixture" in case:
        return corpus.check_case(ID, case)
    if case.get("w4"):
        return w4.check_case(ID, case)
    res = CaseResult()
    L = cases.realize(case)
    o = L.oracle
    nd = o.ndim
    res.descriptor = cases.describe(case)
    res.classes.append("ins=%s" % case["ins"])
    if case.get("hides"):
        res.classes.append("hides")
    if nd >= 2:
        res.classes.append("pair=%sx%s" % (o.typestr(nd - 2), o.typestr(nd - 1)))
    parts = read(L.cube, "partitions")
    if not res.check("partitions_readable", parts.ok, "exception/partitions",
                     {"exc": repr(parts.exc)}):
        return res
    interior = [False]
    for t, part in enumerate(parts.value):
        if nd == 1:
            _strand(res, L, part, interior)
        else:
            _slice(res, L, t, part, interior)
    # ---- the same reads with warnings as errors, on fresh objects -------------------------
    L2 = cases.realize(case)
    with warnings.catch_warnings():
        warnings.simplefilter("error")
        p2 = read(L2.cube, "partitions")
        if p2.ok:
            for part in p2.value:
                attrs = (["table_proportions", "table_percentages"] if nd == 1 else
                         ["row_proportions", "column_proportions", "table_proportions",
                          "row_percentages", "column_percentages", "table_percentages",
                          "rows_margin_proportion", "columns_margin_proportion"])
                for a in attrs:
                    got = read(part, a)
                    if a.endswith("margin_proportion"):
                        # the statement promises a value, not silence: a RuntimeWarning from
                        # the 2-D margin form is recorded, not judged
                        if not got.ok and isinstance(got.exc, Warning):
                            res.observations["warning:%s" % a] += 1
                        continue
                    res.check("warnings_as_errors", got.ok, "warning_or_exception/%s" % a,
                              {"exc": repr(got.exc)})
    res.nontrivial = (all(o.n_valid(d) >= 2 for d in range(nd)) and o.N >= 5
                      and interior[0])
    return res


def _is_date_diff(V, e, axis):
    role, var = V.o.facets[V.R if axis == 0 else V.C]
    return V.is_diff(e) and getattr(var, "kind", "") == "cat_date"


def _slice(res, L, t, part, interior):
    V = expect.SliceView(L, t, part)
    nr, nc = len(V.rows), len(V.cols)
    skip = np.zeros((nr, nc), dtype=bool)
    for i, r in enumerate(V.rows):
        for j, c in enumerate(V.cols):
            skip[i, j] = (_is_date_diff(V, r, 0) or _is_date_diff(V, c, 1)
                          or (V.valid_count_mode and (V.is_diff(r) or V.is_diff(c))))
    diffcell = np.zeros((nr, nc), dtype=bool)
    for i, r in enumerate(V.rows):
        for j, c in enumerate(V.cols):
            diffcell[i, j] = V.is_diff(r) or V.is_diff(c)
    props = {}
    for direction, name in (("row", "row"), ("col", "column"), ("table", "table")):
        got = read(part, "%s_proportions" % name)
        if not res.check("prop_readable", got.ok, "exception/%s_proportions" % name,
                         {"exc": repr(got.exc)}):
            continue
        g = np.asarray(got.value, dtype=float)
        props[direction] = g
        exp = V.proportions(direction)
        ge, ee = np.where(skip, 0.0, g), np.where(skip, 0.0, exp)
        ok, det = cmp.same(ge, ee) if g.shape == exp.shape else (
            False, {"why": "shape", "got": list(g.shape), "exp": list(exp.shape)})
        res.check("prop_vs_oracle", ok, "slice/%s_proportions" % name, det)
        if g.shape != exp.shape:
            continue
        # NaN exactly where the base is zero (or undefined)
        base = V.bases(direction, True)
        with np.errstate(invalid="ignore"):
            zero = (base == 0) | np.isnan(base)
        cnt = V.counts(True)
        zero = zero | np.isnan(cnt)
        m = ~skip
        res.check("nan_iff_zero_base", np.array_equal(np.isnan(g)[m], zero[m]),
                  "slice/%s_proportions/nan_pattern" % name,
                  {"got_nan": np.isnan(g).tolist(), "zero_base": zero.tolist()})
        if zero.any():
            res.classes.append("zero_base")
        # bounded for non-difference cells
        nb = ~diffcell & ~np.isnan(g)
        # exact for dyadic weights; one unit in the last place is granted to quotients of
        # sums of weights that are not exactly representable
        ub = 1 + (1e-12 if V.inexact else 0.0)
        inb = bool(np.all((g[nb] >= 0) & (g[nb] <= ub)))
        res.check("bounded", inb, "slice/%s_proportions/bounds" % name, {"got": g.tolist()})
        if np.any((g[nb] > 0) & (g[nb] < 1)):
            interior[0] = True
        # percentages
        pc = read(part, "%s_percentages" % name)
        okp = pc.ok and cmp.same(pc.value, g * 100, exact=True)[0]
        res.check("percent_is_100x", okp, "slice/%s_percentages" % name,
                  {"got": repr(pc)[:300]})
    _sum_to_one(res, L, t, V)
    _margin_props(res, V, part)


def _sum_to_one(res, L, t, V):
    """On a shadow partition without hides/orders: base elements of a categorical dim sum to 1."""
    tr = copy.deepcopy(L.case.get("transforms") or {})
    for k in ("rows_dimension", "columns_dimension"):
        if k in tr:
            tr[k].pop("elements", None)
            tr[k].pop("order", None)
            tr[k].pop("prune", None)
    case2 = dict(L.case)
    case2["transforms"] = tr
    L2 = cases.realize(case2)
    parts = read(L2.cube, "partitions")
    if not parts.ok:
        return
    part = parts.value[t]
    V2 = expect.SliceView(L2, t, part, tr)
    rbase = [i for i, e in enumerate(V2.rows) if not V2.is_sub(e)]
    cbase = [j for j, e in enumerate(V2.cols) if not V2.is_sub(e)]
    if V2.col_type == "CAT" and cbase:
        g = np.asarray(read(part, "row_proportions").value, dtype=float)
        b = V2.bases("row", True)
        for i in rbase:
            if b[i, cbase[0]] > 0:
                s = float(np.sum(g[i, cbase]))
                res.check("sum_to_one", abs(s - 1.0) < 1e-9, "slice/row_proportions/sum",
                          {"row": i, "sum": s, "values": g[i, cbase].tolist()})
    if V2.row_type == "CAT" and rbase:
        g = np.asarray(read(part, "column_proportions").value, dtype=float)
        b = V2.bases("col", True)
        for j in cbase:
            if b[rbase[0], j] > 0:
                s = float(np.sum(g[rbase, j]))
                res.check("sum_to_one", abs(s - 1.0) < 1e-9, "slice/column_proportions/sum",
                          {"col": j, "sum": s, "values": g[rbase, j].tolist()})
    if V2.row_type == "CAT" and V2.col_type == "CAT" and rbase and cbase:
        g = np.asarray(read(part, "table_proportions").value, dtype=float)
        b = V2.bases("table", True)
        if b[rbase[0], cbase[0]] > 0:
            s = float(np.sum(g[np.ix_(rbase, cbase)]))
            res.check("sum_to_one", abs(s - 1.0) < 1e-9, "slice/table_proportions/sum",
                      {"sum": s})
    # the visible cells of the transformed partition carry the same values as the shadow
    # (hidden elements still count in the denominators)


def _margin_props(res, V, part):
    o = V.o
    nr, nc = len(V.rows), len(V.cols)
    if nr == 0 or nc == 0:
        return
    tr = V.part._transforms_dict if hasattr(V.part, "_transforms_dict") else {}
    transformed = bool(V.row_subs or V.col_subs) or any(
        (tr.get(k) or {}).get(x) for k in ("rows_dimension", "columns_dimension")
        for x in ("elements", "order", "prune"))
    cfg = "transformed" if transformed else "plain"
    for attr, axis, one_d in (("rows_margin_proportion", 0, V.col_type == "CAT"),
                              ("columns_margin_proportion", 1, V.row_type == "CAT")):
        got = read(part, attr)
        form = "1d" if one_d else "2d/%s" % cfg
        if not res.check("margin_proportion", got.ok, "slice/%s/%s/exception" % (attr, form),
                         {"exc": repr(got.exc)}):
            continue
        g = np.asarray(got.value, dtype=float)
        if one_d:
            exp = []
            elems = V.rows if axis == 0 else V.cols
            for e in elems:
                # numerator: signed sum over the freed opposing (categorical) dimension
                num = 0.0
                for sg, b in o._terms(e):
                    sel = V.sel(b, 0) if axis == 0 else V.sel(0, b)
                    num += sg * o.total(_fix(sel, V, axis), (V.C,) if axis == 0 else (V.R,),
                                        V.weighted)
                first = o._first_base(e)
                sel = V.sel(first, 0) if axis == 0 else V.sel(0, first)
                den = o.total(_fix(sel, V, axis), (V.R, V.C), V.weighted)
                exp.append(num / den if den else float("nan"))
            exp = np.array(exp)
            # a difference in a valid-count response has a NaN count (C04 owns that rule)
            judged = np.array([not (V.valid_count_mode and V.is_diff(e)) for e in elems],
                              dtype=bool)
            if g.shape == exp.shape:
                ok, det = cmp.same(np.where(judged, g, 0.0), np.where(judged, exp, 0.0))
            else:
                ok, det = cmp.same(g, exp)
            res.check("margin_proportion", ok, "slice/%s" % attr, det)
        else:
            # 2-D form: margin over table base, cell by cell, on base cells
            m = read(part, "rows_margin" if axis == 0 else "columns_margin")
            tb = read(part, "table_weighted_bases")
            if m.ok and tb.ok:
                with np.errstate(divide="ignore", invalid="ignore"):
                    exp = np.asarray(m.value, dtype=float) / np.asarray(tb.value, dtype=float)
                rb = [i for i, e in enumerate(V.rows) if not V.is_sub(e)]
                cb = [j for j, e in enumerate(V.cols) if not V.is_sub(e)]
                ok, det = cmp.same(g[np.ix_(rb, cb)], exp[np.ix_(rb, cb)])
                res.check("margin_proportion", ok, "slice/%s/2d/%s" % (attr, cfg), det)


def _fix(sel, V, axis):
    # the freed dimension still needs an element index for MR/ARR semantics
    return sel


def _strand(res, L, part, interior):
    o = L.oracle
    tr = L.case.get("transforms") or {}
    subs = expect.resolved_subtotals(o, 0, tr.get("rows_dimension"))
    order = [int(x) for x in read(part, "row_order").value]
    weighted = L.spec.weight is not None
    role, var = o.facets[0]
    is_date = getattr(var, "kind", "") == "cat_date"
    vc_mode = L.spec.numarr is not None
    exp, skip, isdiff = [], [], []
    for e in order:
        if e >= 0:
            n = o.count({0: e}, weighted)
            b = o.base({0: e}, (0,), weighted)
            d = False
        else:
            s = subs[e + len(subs)]
            el = ("sub", tuple(s["addends"]), tuple(s["subtrahends"]))
            n = o.count({0: el}, weighted)
            b = o.base({0: 0}, (0,), weighted)
            d = bool(s["subtrahends"])
        isdiff.append(d)
        skip.append(d and is_date)
        exp.append(n / b if b else float("nan"))
    got = read(part, "table_proportions")
    if not res.check("prop_readable", got.ok, "exception/strand/table_proportions",
                     {"exc": repr(got.exc)}):
        return
    g = np.asarray(got.value, dtype=float)
    exp = np.array(exp)
    skip = np.array(skip, dtype=bool)
    isdiff = np.array(isdiff, dtype=bool)
    if g.shape == exp.shape:
        ok, det = cmp.same(np.where(skip, 0.0, g), np.where(skip, 0.0, exp))
    else:
        ok, det = False, {"why": "shape", "got": list(g.shape), "exp": list(exp.shape)}
    res.check("strand_prop", ok, "strand/table_proportions", det)
    if g.shape != exp.shape:
        return
    nb = ~isdiff & ~np.isnan(g)
    ub = 1 + (0.0 if cases.weights_exact(L.spec) else 1e-12)
    res.check("bounded", bool(np.all((g[nb] >= 0) & (g[nb] <= ub))),
              "strand/table_proportions/bounds", {"got": g.tolist()})
    if np.any((g[nb] > 0) & (g[nb] < 1)):
        interior[0] = True
    if np.isnan(exp[~skip]).any():
        res.classes.append("zero_base")
    pc = read(part, "table_percentages")
    res.check("percent_is_100x", pc.ok and cmp.same(pc.value, g * 100, exact=True)[0],
              "strand/table_percentages", {"got": repr(pc)[:300]})
    if o.typestr(0) == "CAT" and not vc_mode:
        base_pos = [k for k, e in enumerate(order) if e >= 0]
        hidden = set(range(o.n_valid(0))) - set(e for e in order if e >= 0)
        if not hidden and base_pos and o.base({0: 0}, (0,), weighted) > 0:
            s = float(np.sum(g[base_pos]))
            res.check("sum_to_one", abs(s - 1.0) < 1e-9, "strand/table_proportions/sum",
                      {"sum": s})
