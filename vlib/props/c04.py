"""C04 - subtotals behave as merged categories; differences as signed merges (R + I + M)."""

import copy

import numpy as np

from .. import cases, cmp, gen, sim, expect
from ..harness import CaseResult
from ..probe import read
from .c12 import exact_rank

ID = "C04"
TITLE = "Subtotals behave as merged categories; differences as signed merges"
TEMPLATES = [
    "cat|cat", "cat|cat", "cat|mr", "mr|cat", "cat_date|cat", "cat|cat_date", "cat_date|mr",
    "mr|cat_date", "cai|cac", "cac|cai", "cat|cai|cac", "cat|cac|cai", "cat|cat|cat",
    "mr|cat|cat", "cat", "cat_date", "numarr|cat", "cat|binned", "text|cat", "logical|cat",
    "cai|cac|cat", "cac|cat|cai", "cat|cat_date|cat",
]
RULE = (
    "W1 synthetic surveys over %d templates in which rows and/or columns can carry insertions "
    "(CAT, CAT_DATE, LOGICAL, CA categories crossed with every other kind; strands), x "
    "weighting x response measures {count, +mean/stddev/median/sum, valid counts}. Insertion "
    "lists: 1-4 insertions on either or both dimensions, arbitrary addend/subtrahend subsets "
    "incl. overlapping, stale and missing ids, 'args' and 'kwargs' styles, on the variable view "
    "or in the analysis transforms. Monitors: (a) counts vs respondents, (b) intersections "
    "accumulated rows-first and columns-first from the public body cells, (c) merge "
    "equivalence against a second survey with the addends recoded into one category, (d) "
    "NaN for non-additive measures, (e) difference rules incl. categorical-date wave "
    "differences. Non-trivial: at least one valid insertion whose addends have a non-zero "
    "count, N >= 5." % len(TEMPLATES))
ASSUMPTIONS = [
    "response builder as in C01; eligibility as in C02",
    "merge equivalence of z-scores/p-values is only demanded when both the table and its "
    "merged twin have >= 2 linearly independent rows and columns (exact rational rank)",
    "_Slice.table_proportions of a several-term categorical-date difference is recorded, not "
    "judged (DESIGN.md 4 C04e, observation O1)",
]
TECHNIQUE = "reference-model + relational (merged-category twin run) + intrinsic runtime monitors"
DESIGN_REF = "DESIGN.md 4 C04"
WEIGHTS = ["none", "frac", "zeros", "float", "tiny"]
MSETS = [(), ("mean", "stddev"), ("sum",), ("valid_counts", "mean"), ("median", "sum"), ("sq_weights",)]
REQUIRED_REACH = [
    "a_count", "b_intersection", "c_merge", "d_nonadditive_nan", "e_diff_base_nan",
    "e_diff_x_diff_nan", "e_wave_diff", "e_wave_multi_nan", "strand_count", "strand_merge",
    "class:rows_ins", "class:cols_ins", "class:both_ins", "class:valid_counts",
    "c_merge/zscores", "c_merge/pairwise",
]
BATCH = 30
UNIT_TIMEOUT_S = 30


def units(tier, seed):
    n = 700 if tier == "quick" else 40000
    return [{"i": i, "seed": seed} for i in range(n)]


def make_case(unit):
    i = unit["i"]
    g = gen.G("C04/%s/%s" % (unit["seed"], i))
    template = TEMPLATES[i % len(TEMPLATES)]
    j = i // len(TEMPLATES)
    wmode = WEIGHTS[j % len(WEIGHTS)]
    mset = MSETS[gen.stratum(ID, i, 1, len(MSETS))]
    N = g.pick([5, 8, 12, 20, 30, 45, 60])
    nparts = len(template.split("|"))
    sizes = [g.r.randint(2, 5) for _ in range(nparts)]
    facets = cases.random_facets(g, template, N, sizes=sizes, p_zero=0.1, numeric="some")
    cases.entangle_some(g, facets)
    transforms = {}
    which = g.pick([("rows",), ("cols",), ("rows", "cols"), ("rows", "cols")])
    labels = cases.attach_insertions(g, facets, transforms, which=which)
    # wave differences need 1-1 and multi-term differences on the date dimension
    if "cat_date" in template and g.chance(0.7):
        _date_diffs(g, facets, transforms)
    w = g.weights(N, wmode)
    if "numarr" in template:
        spec = sim.CubeSpec(facets, w, ("mean", "sum") if g.chance(0.5) else ("mean",))
    else:
        # sums: many cells without any valid value (an unavailable sum must stay confined to
        # the subtotals it is a term of)
        numvar = (g.num(N, p_missing=g.pick([0.1, 0.4, 0.6, 0.75])) if "sum" in mset
                  else g.num(N)) if mset else None
        spec = sim.CubeSpec(facets, w, mset, numvar)
    return {"template": template, "spec": sim.spec_to_dict(spec), "transforms": transforms,
            "ins_labels": labels, "population": 1000}


def _date_diffs(g, facets, transforms):
    lf = cases.library_order_facets(facets)
    nd = len(lf)
    for key, (role, var) in (("rows_dimension", lf[nd - 2] if nd >= 2 else lf[0]),
                             ("columns_dimension", lf[nd - 1] if nd >= 2 else (None, None))):
        if role != "cat" or var.kind != "cat_date":
            continue
        ids = [c["id"] for c in var.axis_cats if not c.get("missing")]
        if len(ids) < 2:
            continue
        ins = []
        a, b = g.r.sample(ids, 2)
        ins.append({"function": "subtotal", "name": "wave 1-1", "anchor": "bottom",
                    "kwargs": {"positive": [a], "negative": [b]}, "id": 41})
        # the first valid element as the only subtrahend (position 0 is a corner case)
        if len(ids) >= 3:
            rest = [x for x in ids if x != ids[0]]
            ins.append({"function": "subtotal", "name": "wave multi", "anchor": "top",
                        "kwargs": {"positive": g.r.sample(rest, 2), "negative": [ids[0]]},
                        "id": 42})
            pos = g.r.sample(ids, 1)
            neg = g.r.sample([x for x in ids if x not in pos], 2)
            ins.append({"function": "subtotal", "name": "wave multi2", "anchor": "bottom",
                        "kwargs": {"positive": pos, "negative": neg}, "id": 43})
        ins.append({"function": "subtotal", "name": "first-minus", "anchor": "bottom",
                    "kwargs": {"positive": [ids[-1]], "negative": [ids[0]]}, "id": 44})
        if var.view_insertions is not None and "insertions" not in transforms.get(key, {}):
            var.view_insertions = list(var.view_insertions) + ins
        else:
            transforms.setdefault(key, {}).setdefault("insertions", [])
            transforms[key]["insertions"] = list(transforms[key]["insertions"]) + ins


# ------------------------------------------------------------------------------- checking

MAT = ["counts", "unweighted_counts", "row_weighted_bases", "column_weighted_bases",
       "table_weighted_bases", "row_unweighted_bases", "column_unweighted_bases",
       "table_unweighted_bases", "row_proportions", "column_proportions", "table_proportions",
       "row_proportion_variances", "column_proportion_variances",
       "table_proportion_variances", "row_std_err", "column_std_err", "table_std_err",
       "row_proportions_moe", "column_proportions_moe", "table_proportions_moe",
       "row_std_dev", "column_std_dev", "table_std_dev", "population_counts",
       "population_counts_moe"]
ROW_MARG = ["rows_margin", "rows_base", "rows_margin_proportion", "rows_scale_mean",
            "rows_scale_mean_stddev", "rows_scale_mean_stderr", "rows_scale_median"]
COL_MARG = ["columns_margin", "columns_base", "columns_margin_proportion", "columns_scale_mean",
            "columns_scale_mean_stddev", "columns_scale_mean_stderr", "columns_scale_median"]
NONADD = ["means", "medians", "stddev", "column_index", "smoothed_means",
          "smoothed_column_index"]
STRAND_VEC = ["counts", "unweighted_counts", "table_proportions", "table_proportion_stddevs",
              "table_proportion_stderrs", "table_proportion_moes", "unweighted_bases",
              "weighted_bases", "population_counts", "population_counts_moe"]


def check_case(case):
    res = CaseResult()
    L = cases.realize(case)
    o = L.oracle
    nd = o.ndim
    res.descriptor = cases.describe(case)
    if "valid_counts" in L.spec.measures or L.spec.numarr is not None:
        res.classes.append("valid_counts")
    parts = read(L.cube, "partitions")
    if not res.check("partitions_readable", parts.ok, "exception/partitions",
                     {"exc": repr(parts.exc)}):
        return res
    nz = [False]
    for t, part in enumerate(parts.value):
        if nd == 1:
            _strand(res, L, case, part, nz)
        else:
            _slice(res, L, case, t, part, nz)
    res.nontrivial = o.N >= 5 and nz[0]
    return res


def _arr(part, attr, res=None, *args):
    got = read(part, attr, *args)
    if not got.ok or got.value is None:
        return None
    try:
        return np.asarray(got.value, dtype=float)
    except Exception:
        return None


def _slice(res, L, case, t, part, nz):
    V = expect.SliceView(L, t, part)
    o = V.o
    nr, nc = len(V.rows), len(V.cols)
    has_r, has_c = bool(V.row_subs), bool(V.col_subs)
    if has_r and has_c:
        res.classes.append("both_ins")
    elif has_r:
        res.classes.append("rows_ins")
    elif has_c:
        res.classes.append("cols_ins")
    if nr == 0 or nc == 0:
        return
    sub_r = [i for i, e in enumerate(V.rows) if V.is_sub(e)]
    sub_c = [j for j, e in enumerate(V.cols) if V.is_sub(e)]
    issub = np.zeros((nr, nc), dtype=bool)
    issub[sub_r, :] = True
    issub[:, sub_c] = True

    # (a) counts of every cell incl. subtotals and intersections vs respondents ------------
    for attr, wt in (("counts", True), ("unweighted_counts", False)):
        got = read(part, attr)
        exp = V.counts(wt)
        if attr == "counts" and V.valid_count_mode and not V.weighted:
            # weighted valid counts are absent: see finding KF-C04-valid-count-diff
            pass
        ok, det = cmp.same(got.value, exp, exact=cases.weights_exact(L.spec)) if got.ok else (
            False, {"exc": repr(got.exc)})
        cfg = ""
        if not ok and V.valid_count_mode and attr == "counts":
            cfg = "/valid_count_response"
        res.check("a_count", ok, "a/%s%s" % (attr, cfg), det)
        if got.ok and issub.any():
            g = np.asarray(got.value, dtype=float)
            if g.shape == issub.shape and np.nansum(np.abs(g[issub])) > 0:
                nz[0] = True

    # (b) intersection accumulated in either direction from the public body cells -----------
    add_measures = ["counts", "unweighted_counts"] + (["sums"] if "sum" in L.spec.measures
                                                      else [])
    for attr in add_measures:
        g = _arr(part, attr)
        if g is None or g.shape != (nr, nc):
            continue
        pos_r = {e: i for i, e in enumerate(V.rows) if not V.is_sub(e)}
        pos_c = {e: j for j, e in enumerate(V.cols) if not V.is_sub(e)}
        for i in sub_r:
            for j in sub_c:
                r, c = V.rows[i], V.cols[j]
                if V.is_diff(r) and V.is_diff(c):
                    continue
                if not all(a in pos_r for a in r[1] + r[2]) or \
                        not all(a in pos_c for a in c[1] + c[2]):
                    continue  # an addend is hidden: cannot be recomputed from visible cells
                rows_first = sum(g[pos_r[a], j] for a in r[1]) - sum(g[pos_r[a], j]
                                                                     for a in r[2])
                cols_first = sum(g[i, pos_c[a]] for a in c[1]) - sum(g[i, pos_c[a]]
                                                                     for a in c[2])
                if np.isnan(g[i, j]):
                    # unavailable is right only if one of the two accumulations is: a NaN
                    # elsewhere in the table (a cell that is no term of this intersection)
                    # must not reach it
                    okn = np.isnan(rows_first) or np.isnan(cols_first)
                    res.check("b_intersection", bool(okn), "b/%s/nan_from_non_term" % attr,
                              None if okn else {"at": [i, j], "rows_first": float(rows_first),
                                                "cols_first": float(cols_first)})
                    continue
                ok = (abs(g[i, j] - rows_first) <= 1e-9 * max(1, abs(g[i, j]))
                      and abs(g[i, j] - cols_first) <= 1e-9 * max(1, abs(g[i, j])))
                res.check("b_intersection", ok, "b/%s" % attr,
                          {"at": [i, j], "value": float(g[i, j]), "rows_first": float(rows_first),
                           "cols_first": float(cols_first)})

    # (d) non-additive measures are NaN at every inserted vector ------------------------------
    if issub.any():
        for attr in NONADD:
            got = read(part, attr)
            if not got.ok:
                continue  # measure not in the response (ValueError) - C01 judges that
            g = np.asarray(got.value, dtype=float)
            if g.shape != (nr, nc):
                continue
            res.check("d_nonadditive_nan", bool(np.all(np.isnan(g[issub]))), "d/%s" % attr,
                      {"got": g.tolist()})

    # (e) differences ----------------------------------------------------------------------------
    _differences(res, V, part)

    # (c) merge equivalence ------------------------------------------------------------------
    _merge(res, L, case, t, part, V)


def _differences(res, V, part):
    nr, nc = len(V.rows), len(V.cols)
    dr = [i for i, e in enumerate(V.rows) if V.is_diff(e)]
    dc = [j for j, e in enumerate(V.cols) if V.is_diff(e)]
    rrole, rvar = V.o.facets[V.R]
    crole, cvar = V.o.facets[V.C]
    row_date = getattr(rvar, "kind", "") == "cat_date" and rrole == "cat"
    col_date = getattr(cvar, "kind", "") == "cat_date" and crole == "cat"
    # difference-index lists reported by the partition
    for attr, exp in (("diff_row_idxs", dr), ("diff_column_idxs", dc)):
        got = read(part, attr)
        res.check("e_diff_idxs", got.ok and list(got.value) == exp, "e/%s" % attr,
                  {"got": repr(got)[:200], "exp": exp})
    if not dr and not dc:
        return
    own = {"row": (dr, 0), "column": (dc, 1)}
    for name, (idxs, axis) in own.items():
        if not idxs:
            continue
        date = row_date if axis == 0 else col_date
        for attr in ("%s_weighted_bases" % name, "%s_unweighted_bases" % name):
            g = _arr(part, attr)
            if g is None or g.shape != (nr, nc):
                continue
            sl = g[idxs, :] if axis == 0 else g[:, idxs]
            res.check("e_diff_base_nan", bool(np.all(np.isnan(sl))), "e/%s/own_direction" % attr,
                      {"got": g.tolist()})
        if not date:
            g = _arr(part, "%s_proportions" % name)
            if g is not None and g.shape == (nr, nc):
                sl = g[idxs, :] if axis == 0 else g[:, idxs]
                res.check("e_diff_base_nan", bool(np.all(np.isnan(sl))),
                          "e/%s_proportions/own_direction" % name, {"got": g.tolist()})
    # difference x difference intersections are NaN in every measure
    if dr and dc:
        for attr in MAT + ["zscores", "pvals"]:
            g = _arr(part, attr)
            if g is None or g.shape != (nr, nc):
                continue
            if attr in ("table_weighted_bases", "table_unweighted_bases"):
                # the table-direction base is the table's, whatever the cell: recorded only
                res.observations["O5:%s at diff x diff is %s" % (
                    attr, "nan" if np.all(np.isnan(g[np.ix_(dr, dc)])) else "numeric")] += 1
                continue
            res.check("e_diff_x_diff_nan", bool(np.all(np.isnan(g[np.ix_(dr, dc)]))),
                      "e/diff_x_diff/%s" % attr, {"got": g.tolist()})
    # categorical-date wave differences
    for axis, date, idxs, elems in ((0, row_date, dr, V.rows), (1, col_date, dc, V.cols)):
        if not date or not idxs:
            continue
        pos = {e: k for k, e in enumerate(elems) if not V.is_sub(e)}
        for pname in ("row_proportions", "column_proportions"):
            g = _arr(part, pname)
            if g is None or g.shape != (nr, nc):
                continue
            for k in idxs:
                e = elems[k]
                vec = g[k, :] if axis == 0 else g[:, k]
                other = V.cols if axis == 0 else V.rows
                # judged on base (non-inserted) opposing elements; what a wave difference
                # shows where it crosses an opposing subtotal is not stated (observation O4)
                keep = np.array([not V.is_sub(x) for x in other], dtype=bool)
                if len(e[1]) == 1 and len(e[2]) == 1:
                    if e[1][0] not in pos or e[2][0] not in pos:
                        continue
                    a = g[pos[e[1][0]], :] if axis == 0 else g[:, pos[e[1][0]]]
                    b = g[pos[e[2][0]], :] if axis == 0 else g[:, pos[e[2][0]]]
                    ok, det = cmp.same(vec[keep], (a - b)[keep], rtol=1e-9, atol=1e-12)
                    res.check("e_wave_diff", ok, "e/wave_1_minus_1/%s" % pname, det)
                elif e[1] and e[2]:
                    first0 = 0 in e[2] and len(e[2]) == 1
                    res.check("e_wave_multi_nan", bool(np.all(np.isnan(vec[keep]))),
                              "e/wave_multi_term/%s%s" % (
                                  pname, "/only_subtrahend_is_first_element" if first0 else ""),
                              {"addends": list(e[1]), "subtrahends": list(e[2]),
                               "got": vec.tolist()})
        g = _arr(part, "table_proportions")
        if g is not None and g.shape == (nr, nc):
            for k in idxs:
                e = elems[k]
                if len(e[1]) + len(e[2]) > 2 and e[2]:
                    vec = g[k, :] if axis == 0 else g[:, k]
                    res.observations["O1:slice.table_proportions of multi-term date diff is %s"
                                     % ("nan" if np.all(np.isnan(vec)) else "numeric")] += 1


# ------------------------------------------------------------------------ merge equivalence


def merge_var(var, addend_ids, new_id=990):
    """Copy of a CatVar/CAVar with the valid categories `addend_ids` recoded into one."""
    v = copy.copy(var)
    is_ca = isinstance(var, sim.CAVar)
    axis = list(range(len(var.cats))) if is_ca else list(var.data_order)
    keep = [j for j in axis if not (var.cats[j]["id"] in addend_ids
                                    and not var.cats[j].get("missing"))]
    gone = [j for j in axis if j not in keep]
    new_cats = [dict(var.cats[j]) for j in keep]
    merged = {"id": new_id, "name": "merged", "missing": False, "numeric_value": None}
    if getattr(var, "kind", "") == "cat_date":
        merged["date"] = "2030-01"
    new_cats.append(merged)
    remap = {j: k for k, j in enumerate(keep)}
    for j in gone:
        remap[j] = len(new_cats) - 1
    v.cats = new_cats
    v.ans = np.vectorize(lambda x: remap[int(x)], otypes=[int])(var.ans) if var.ans.size else \
        var.ans.copy()
    if not is_ca:
        v.data_order = list(range(len(new_cats)))
    v.view_insertions = None
    return v


def _twin(L, case, axis_dim, addend_ids):
    """Live objects of the twin survey with dimension `axis_dim` merged (no insertions on it)."""
    spec = L.spec
    o = L.oracle
    role, var = o.facets[axis_dim]
    mv = merge_var(var, set(addend_ids))
    s2 = copy.copy(spec)
    s2.facets = [(r, mv if v is var else v) for r, v in spec.facets]
    tr = copy.deepcopy(case.get("transforms") or {})
    nd = o.ndim
    key = "rows_dimension" if (axis_dim == nd - 2 or nd == 1) else "columns_dimension"
    tr.setdefault(key, {})["insertions"] = []
    case2 = dict(case)
    case2["spec"] = sim.spec_to_dict(s2)
    case2["transforms"] = tr
    return cases.realize(case2), case2


def _merge(res, L, case, t, part, V):
    o = V.o
    budget = 2
    for axis, subs, elems, d in ((0, V.row_subs, V.rows, V.R), (1, V.col_subs, V.cols, V.C)):
        for k, e in enumerate(elems):
            if not V.is_sub(e) or V.is_diff(e) or budget <= 0:
                continue
            role, var = o.facets[d]
            vids = [c["id"] for c in var.valid_cats]
            addend_ids = [vids[a] for a in e[1]]
            if not addend_ids:
                continue
            budget -= 1
            try:
                L2, case2 = _twin(L, case, d, addend_ids)
            except Exception as ex:  # twin construction is the harness' business
                res.skipped["twin_failed:%s" % type(ex).__name__] += 1
                continue
            parts2 = read(L2.cube, "partitions")
            if not parts2.ok or t >= len(parts2.value):
                res.skipped["twin_partition_unavailable"] += 1
                continue
            part2 = parts2.value[t]
            V2 = expect.SliceView(L2, t, part2, case2["transforms"])
            merged_idx = L2.oracle.n_valid(d) - 1
            elems2 = V2.rows if axis == 0 else V2.cols
            if merged_idx not in elems2:
                continue
            k2 = elems2.index(merged_idx)
            _compare_merge(res, V, part, V2, part2, axis, k, k2, e)


def _regular(V):
    o = V.o
    nbr, nbc = o.n_valid(V.R), o.n_valid(V.C)
    if nbr == 0 or nbc == 0:
        return False
    counts = [[o.total(V.sel(r, c), (), V.weighted) for c in range(nbc)] for r in range(nbr)]
    return exact_rank(counts) >= 2


def _compare_merge(res, V, part, V2, part2, axis, k, k2, e):
    other = V.cols if axis == 0 else V.rows
    other2 = V2.cols if axis == 0 else V2.rows
    if other != other2:
        res.skipped["twin_other_dimension_differs"] += 1
        return
    # entries whose opposing element is a difference on a categorical-date dimension, or any
    # difference in a valid-count response, follow rules of their own (e); not compared here
    orole, ovar = V.o.facets[V.C if axis == 0 else V.R]
    odate = getattr(ovar, "kind", "") == "cat_date"
    keep_o = np.array([not (V.is_diff(x) and (odate or V.valid_count_mode)) for x in other],
                      dtype=bool)
    names = list(MAT)
    if _regular(V) and _regular(V2):
        names += ["zscores", "pvals"]
        res.monitors["c_merge/zscores"] += 1
    for attr in names:
        a, b = _arr(part, attr), _arr(part2, attr)
        if a is None or b is None or a.ndim != 2 or b.ndim != 2:
            continue
        va = a[k, :] if axis == 0 else a[:, k]
        vb = b[k2, :] if axis == 0 else b[:, k2]
        if va.shape != vb.shape:
            res.check("c_merge", False, "c/%s/shape" % attr, {"a": list(va.shape),
                                                              "b": list(vb.shape)})
            continue
        atol = 1e-10
        if V.inexact and ("std" in attr or "moe" in attr):
            # square roots of rounding residues (1e-16 -> 1e-8), scaled by the population
            atol = 4e-4 if attr.startswith("population") else 2e-7
        ok, det = cmp.same(va[keep_o], vb[keep_o], rtol=1e-8, atol=atol)
        res.check("c_merge", ok, "c/%s/%s" % ("row" if axis == 0 else "column", attr), det)
    # marginals at the vector
    for attr in (ROW_MARG if axis == 0 else COL_MARG):
        ga, gb = read(part, attr), read(part2, attr)
        if not (ga.ok and gb.ok) or ga.value is None or gb.value is None:
            if ga.ok and gb.ok and (ga.value is None) != (gb.value is None):
                res.check("c_merge", False, "c/%s/none_mismatch" % attr, None)
            continue
        a, b = np.asarray(ga.value, dtype=float), np.asarray(gb.value, dtype=float)
        if a.ndim != b.ndim:
            continue
        if a.ndim == 1:
            va, vb = a[k], b[k2]
        else:
            va = (a[k, :] if axis == 0 else a[:, k])[keep_o]
            vb = (b[k2, :] if axis == 0 else b[:, k2])[keep_o]
        ok, det = cmp.same(va, vb, rtol=1e-8, atol=1e-10)
        res.check("c_merge", ok, "c/%s/%s%s" % ("row" if axis == 0 else "column", attr,
                                                 "/2d" if a.ndim == 2 else ""), det)
    # pairwise column tests with the subtotal as selected and as compared column
    if axis == 1 and V.col_type == "CAT":
        cols1 = V.cols
        map12 = {}
        for j, c in enumerate(cols1):
            if not V.is_sub(c) and c not in e[1]:
                # base element index shifts in the twin: removed addends precede some columns
                shift = sum(1 for a in e[1] if a < c)
                c2 = c - shift
                if c2 in V2.cols:
                    map12[j] = V2.cols.index(c2)
        map12[k] = k2
        js = sorted(map12)
        for fn in ("pairwise_significance_t_stats", "pairwise_significance_p_vals"):
            ta, tb = _arr(part, fn, None, k), _arr(part2, fn, None, k2)
            if ta is not None and tb is not None and ta.ndim == 2:
                keep = keep_o
                ok, det = cmp.same(ta[:, js][keep], tb[:, [map12[j] for j in js]][keep],
                                   rtol=1e-7, atol=1e-9)
                res.check("c_merge", ok, "c/column/%s/selected" % fn, det)
                res.monitors["c_merge/pairwise"] += 1
            others = [j for j in js if j != k]
            if others:
                j0 = others[0]
                ta, tb = _arr(part, fn, None, j0), _arr(part2, fn, None, map12[j0])
                if ta is not None and tb is not None and ta.ndim == 2:
                    ok, det = cmp.same(ta[:, k][keep_o], tb[:, k2][keep_o], rtol=1e-7,
                                       atol=1e-9)
                    res.check("c_merge", ok, "c/column/%s/compared" % fn, det)


# ---------------------------------------------------------------------------------- strand


def _strand(res, L, case, part, nz):
    o = L.oracle
    tr = case.get("transforms") or {}
    subs = expect.resolved_subtotals(o, 0, tr.get("rows_dimension"))
    order = [int(x) for x in read(part, "row_order").value]
    weighted = L.spec.weight is not None
    role, var = o.facets[0]
    vc = L.spec.numarr is not None or o.xok is not None
    if subs:
        res.classes.append("rows_ins")
    elems = [e if e >= 0 else ("sub", tuple(subs[e + len(subs)]["addends"]),
                               tuple(subs[e + len(subs)]["subtrahends"])) for e in order]
    for attr, wt in (("counts", True), ("unweighted_counts", False)):
        exp = []
        for e in elems:
            d = isinstance(e, tuple) and e[2]
            exp.append(o.count({0: e}, wt and weighted))
        got = read(part, attr)
        ok, det = cmp.same(got.value, np.array(exp), exact=cases.weights_exact(L.spec)) \
            if got.ok else (False, {"exc": repr(got.exc)})
        res.check("strand_count", ok, "strand/a/%s" % attr, det)
        if vc and got.ok and any(isinstance(e, tuple) and e[2] for e in elems):
            g_ = np.asarray(got.value, dtype=float)
            dpos = [k for k, e in enumerate(elems) if isinstance(e, tuple) and e[2]]
            res.observations["O7:strand %s of a difference in a valid-count response is %s" % (
                attr, "nan" if np.all(np.isnan(g_[dpos])) else "numeric")] += 1
        if got.ok and any(isinstance(e, tuple) and x != 0 for e, x in zip(elems, exp)):
            nz[0] = True
    sub_pos = [k for k, e in enumerate(elems) if isinstance(e, tuple)]
    if sub_pos:
        for attr in ("means", "medians", "stddev", "smoothed_means"):
            got = read(part, attr)
            if got.ok:
                g = np.asarray(got.value, dtype=float)
                if g.shape == (len(elems),):
                    res.check("d_nonadditive_nan", bool(np.all(np.isnan(g[sub_pos]))),
                              "strand/d/%s" % attr, {"got": g.tolist()})
    # wave differences on a categorical-date strand
    if getattr(var, "kind", "") == "cat_date":
        g = _arr(part, "table_proportions")
        if g is not None and g.shape == (len(elems),):
            pos = {e: k for k, e in enumerate(elems) if not isinstance(e, tuple)}
            for k, e in enumerate(elems):
                if not (isinstance(e, tuple) and e[2]):
                    continue
                if len(e[1]) == 1 and len(e[2]) == 1 and e[1][0] in pos and e[2][0] in pos:
                    exp = g[pos[e[1][0]]] - g[pos[e[2][0]]]
                    # a strand has a common base: the difference of the two percentages
                    ok = (np.isnan(exp) and np.isnan(g[k])) or abs(g[k] - exp) < 1e-9
                    res.check("e_wave_diff", bool(ok), "strand/e/wave_1_minus_1",
                              {"got": float(g[k]), "exp": float(exp)})
                elif e[1] and e[2]:
                    first0 = 0 in e[2] and len(e[2]) == 1
                    res.check("e_wave_multi_nan", bool(np.isnan(g[k])),
                              "strand/e/wave_multi_term%s" % (
                                  "/only_subtrahend_is_first_element" if first0 else ""),
                              {"addends": list(e[1]), "subtrahends": list(e[2]),
                               "got": float(g[k])})
    # merge equivalence for one sum subtotal
    for k, e in enumerate(elems):
        if not isinstance(e, tuple) or e[2] or not e[1]:
            continue
        vids = [c["id"] for c in var.valid_cats]
        try:
            L2, case2 = _twin(L, case, 0, [vids[a] for a in e[1]])
        except Exception as ex:
            res.skipped["twin_failed:%s" % type(ex).__name__] += 1
            break
        p2 = read(L2.cube, "partitions")
        if not p2.ok:
            break
        part2 = p2.value[0]
        order2 = [int(x) for x in read(part2, "row_order").value]
        m = L2.oracle.n_valid(0) - 1
        if m not in order2:
            break
        k2 = order2.index(m)
        for attr in STRAND_VEC:
            a, b = _arr(part, attr), _arr(part2, attr)
            if a is None or b is None or a.ndim != 1:
                continue
            ok, det = cmp.same(a[k], b[k2], rtol=1e-8, atol=1e-10)
            res.check("strand_merge", ok, "strand/c/%s" % attr, det)
        break
