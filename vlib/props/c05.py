"""C05 - display transforms only select and reorder; every output stays aligned (M + I)."""

import copy

import numpy as np

from .. import cases, cmp, gen, sim, expect, transforms as T
from ..harness import CaseResult
from ..probe import read, snap

ID = "C05"
TITLE = "Display transforms only select and reorder; every output stays aligned"
TEMPLATES = [t for t in cases.TEMPLATES_1D + cases.TEMPLATES_2D + cases.TEMPLATES_3D]
RULE = (
    "Pairs of runs on the same response: B = insertions/renames/fills only, T = B plus a random "
    "mix of explicit / payload / sort-by-value orders (opposing element, opposing insertion, "
    "marginal, label, univariate measure), fixed top/bottom lists with repeats and overlaps, "
    "per-element hides and prune flags, on rows and columns at once; %d templates x weighting x "
    "measure sets. Every public array output found by reflection on _Slice/_Strand is compared "
    "through the two reported orders in canonical coordinates. Non-trivial: T changes the "
    "order or removes at least one element, N >= 5." % len(TEMPLATES))
ASSUMPTIONS = [
    "the canonical identity of a display position is taken from row_order()/column_order() "
    "and the specification-resolved insertion list (C07 owns whether that order is right)",
    "outputs of unknown kind (added later to the public API) are classified by shape only "
    "when row count, column count and 2 are pairwise different",
]
TECHNIQUE = "relational (two-run) runtime monitor over all public outputs discovered by reflection"
DESIGN_REF = "DESIGN.md 4 C05"
WEIGHTS = ["none", "frac", "zeros"]
MSETS = [(), ("mean", "stddev"), ("sum",), (), ("median", "mean"), ()]
REQUIRED_REACH = ["matrix", "row_marginal", "col_marginal", "scalar", "labels", "index_lists",
                  "no_duplicates", "extent", "pairwise_indices", "strand_vector",
                  "collator:SortByValueCollator", "collator:ExplicitOrderCollator",
                  "class:hide", "class:prune", "class:order=explicit", "class:sorted"]
BATCH = 25
UNIT_TIMEOUT_S = 40

# kind table for the public properties that exist today -----------------------------------
MATRIX = {
    "column_index", "column_percentages", "column_proportions", "column_proportions_moe",
    "column_share_sum", "column_proportion_variances", "column_std_dev", "column_std_err",
    "column_unweighted_bases", "column_weighted_bases", "counts", "weighted_counts", "means",
    "medians", "population_proportions", "population_counts", "population_std_err",
    "population_counts_moe", "pvals", "pvalues", "row_percentages", "row_proportions",
    "row_proportions_moe", "row_share_sum", "row_proportion_variances", "row_std_dev",
    "row_std_err", "row_unweighted_bases", "row_weighted_bases", "smoothed_column_index",
    "smoothed_column_percentages", "smoothed_column_proportions", "smoothed_means", "stddev",
    "sums", "table_percentages", "table_proportions", "table_proportions_moe",
    "table_proportion_variances", "table_std_dev", "table_std_err", "table_unweighted_bases",
    "table_weighted_bases", "total_share_sum", "unweighted_counts", "zscores",
}
ROW_MARG = {"row_aliases", "row_codes", "row_labels", "rows_dimension_fills", "rows_scale_mean",
            "rows_scale_mean_stddev", "rows_scale_mean_stderr", "rows_scale_median"}
COL_MARG = {"column_aliases", "column_codes", "column_labels", "columns_scale_mean",
            "columns_scale_mean_stddev", "columns_scale_mean_stderr", "columns_scale_median",
            "columns_squared_base", "smoothed_columns_scale_mean"}
DEPENDS = {  # 1-D when the opposing dimension is categorical, else 2-D
    "rows_margin": 0, "rows_base": 0, "rows_margin_proportion": 0,
    "columns_margin": 1, "columns_base": 1, "columns_margin_proportion": 1,
}
SCALAR = {"columns_dimension_description", "columns_dimension_name", "columns_dimension_type",
          "description", "has_scale_means", "name", "rows_dimension_alias",
          "rows_dimension_description", "rows_dimension_name", "rows_dimension_type",
          "tab_label", "tab_alias", "table_name", "table_base_range", "table_margin_range",
          "cube_index", "dimension_types", "ndim", "population_fraction",
          "selected_category_labels", "variable_name", "columns_scale_mean_margin",
          "columns_scale_median_margin", "rows_scale_mean_margin", "rows_scale_median_margin",
          "title", "scale_mean", "scale_median", "scale_std_dev", "scale_stddev",
          "scale_std_err", "scale_stderr"}
IDX_ROW = {"inserted_row_idxs", "derived_row_idxs", "diff_row_idxs"}
IDX_COL = {"inserted_column_idxs", "derived_column_idxs", "diff_column_idxs"}
PAIRWISE_MATRIX = {"pairwise_indices", "pairwise_indices_alt", "pairwise_means_indices",
                   "pairwise_means_indices_alt"}
PAIRWISE_COLVEC = {"columns_scale_mean_pairwise_indices",
                   "columns_scale_mean_pairwise_indices_alt", "summary_pairwise_indices"}
SKIP = {"pairwise_significance_tests", "shape", "is_empty", "payload_order", "row_count",
        "min_base_size_mask", "residual_test_stats", "table_base", "table_margin"}
STRAND_VEC = {"counts", "weighted_counts", "means", "medians", "min_base_size_mask",
              "population_counts", "population_counts_moe", "population_proportions",
              "population_proportion_stderrs", "row_aliases", "row_codes", "row_labels",
              "rows_base", "rows_dimension_fills", "rows_margin", "share_sum", "smoothed_means",
              "stddev", "sums", "table_percentages", "table_proportion_moes",
              "table_proportion_stddevs", "table_proportion_stderrs", "table_proportions",
              "unweighted_bases", "unweighted_counts", "weighted_bases"}


def units(tier, seed):
    from .. import corpus

    n = 600 if tier == "quick" else 40000
    out = [{"i": i, "seed": seed} for i in range(n)]
    # MR dimensions with derived (fused) items, mostly strands: derived_row_idxs /
    # derived_column_idxs must follow the display order
    out += [{"i": 1000000 + k, "seed": seed, "mrd": 1}
            for k in range(160 if tier == "quick" else 6000)]
    paths = corpus.fixture_paths()
    reps = 1 if tier == "quick" else 12
    for rep in range(reps):
        for k in range(len(paths)):
            out.append({"corpus": k, "rep": rep, "seed": seed})
    return out


def make_case(unit):
    if "corpus" in unit:
        from .. import corpus

        rel = corpus.fixture_paths()[unit["corpus"]]
        g = gen.G("C05c/%s/%s/%s" % (unit["seed"], unit["corpus"], unit["rep"]))
        return {"fixture": rel, "transforms": corpus.random_display_transforms(
            g, corpus.load(rel))}
    i = unit["i"]
    g = gen.G("C05/%s/%s" % (unit["seed"], i))
    template = TEMPLATES[i % len(TEMPLATES)]
    if unit.get("mrd"):
        template = ["mr", "mr", "mr|cat", "cat|mr"][i % 4]
    j = i // len(TEMPLATES)
    wmode = WEIGHTS[j % len(WEIGHTS)]
    mset = MSETS[gen.stratum(ID, i, 1, len(MSETS))]
    N = g.pick([5, 8, 12, 20, 30, 45, 60, 3])
    nparts = len(template.split("|"))
    sizes = [g.r.randint(2, 5) for _ in range(nparts)]
    facets = cases.random_facets(g, template, N, sizes=sizes, p_zero=0.25)
    cases.entangle_some(g, facets)
    if g.chance(0.3) or unit.get("mrd"):
        from .c07 import _derive_items
        for role, v in facets:
            if role == "mr":
                _derive_items(g, v)  # zz9-derived (fused) items with anchors of their own
    tr = {}
    if g.chance(0.6):
        cases.attach_insertions(g, facets, tr)
    w = g.weights(N, wmode)
    if "numarr" in template:
        spec = sim.CubeSpec(facets, w, g.pick([("mean",), ("mean", "sum"), ("sum",)]))
    else:
        spec = sim.CubeSpec(facets, w, mset, g.num(N) if mset else None)
    add_display_transforms(g, spec, tr)
    if g.chance(0.3):
        tr["pairwise_indices"] = {"alpha": g.pick([[0.05], [0.05, 0.2], [0.4, 0.01]]),
                                  "only_larger": g.pick([True, False])}
    return {"template": template, "spec": sim.spec_to_dict(spec), "transforms": tr,
            "population": 1000, "mask_size": g.pick([0, 3, 10])}


def add_display_transforms(g, spec, tr, kinds=None):
    """Fill `tr` with order / hide / prune instructions for rows (and columns)."""
    o = sim.Oracle(spec)
    nd = o.ndim
    strand = nd == 1
    dims = [("rows_dimension", 0, None)] if strand else [
        ("rows_dimension", nd - 2, nd - 1), ("columns_dimension", nd - 1, nd - 2)]
    measures = T.available_measures(spec, strand)
    for key, d, od in dims:
        ids, kind = T.transform_ids(o, d)
        subs = expect.resolved_subtotals(o, d, tr.get(key))
        sub_ids = [s["id"] for s in subs]
        opp_ids, opp_sub_ids = [], []
        if od is not None:
            opp_ids, _ = T.transform_ids(o, od)
            okey = "columns_dimension" if key == "rows_dimension" else "rows_dimension"
            opp_sub_ids = [s["id"] for s in expect.resolved_subtotals(o, od, tr.get(okey))]
        dd = tr.setdefault(key, {})
        els = T.random_hides(g, ids, p=0.45)
        if els:
            dd["elements"] = els
        if g.chance(0.35):
            dd["prune"] = True
        order = T.random_order(g, ids, sub_ids, opp_ids, opp_sub_ids,
                               "rows" if key == "rows_dimension" else "cols", strand, measures,
                               kinds=kinds)
        if order is not None:
            dd["order"] = order
        if not dd:
            del tr[key]


# -------------------------------------------------------------------------------- checking


def public_names(obj):
    from cr.cube.util import lazyproperty

    names = []
    for name in dir(type(obj)):
        if name.startswith("_"):
            continue
        attr = None
        for klass in type(obj).__mro__:
            if name in klass.__dict__:
                attr = klass.__dict__[name]
                break
        if isinstance(attr, lazyproperty):
            names.append(name)
    return names


def coords(order, subs):
    """Canonical coordinate of each display position."""
    out = []
    for e in order:
        e = int(e)
        out.append(("e", e) if e >= 0 else ("s", subs[e + len(subs)]["name"],
                                            e + len(subs)))
    return out


def _check_corpus(case):
    """Fixture response + random legal display transforms vs the same response without."""
    import json as _json
    from cr.cube.cube import Cube
    from .. import corpus

    res = CaseResult()
    res.classes.append("corpus")
    resp = corpus.load(case["fixture"])
    trT = case["transforms"]
    cT = Cube(_json.loads(_json.dumps(resp)), transforms=copy.deepcopy(trT), population=1000)
    cB = Cube(_json.loads(_json.dumps(resp)), transforms={}, population=1000)
    res.descriptor = {"fixture": case["fixture"], "transforms": trT}
    pT, pB = read(cT, "partitions"), read(cB, "partitions")
    if not pT.ok or not pB.ok:
        same = (not pT.ok) and (not pB.ok) and type(pT.exc) is type(pB.exc)
        res.check("partitions_readable", same, "corpus/exception/partitions",
                  {"T": repr(pT.exc), "B": repr(pB.exc)})
        return res
    changed = False
    for partT, partB in zip(pT.value, pB.value):
        nd = len(read(partT, "shape").value) if read(partT, "shape").ok else 0
        if nd != 2:
            res.skipped["corpus_non_2d"] += 1
            continue
        coordsT = [corpus.public_coords(partT, a) for a in (0, 1)]
        coordsB = [corpus.public_coords(partB, a) for a in (0, 1)]
        if None in coordsT or None in coordsB:
            res.check("order_readable", False, "corpus/exception/order", None)
            continue
        dts = read(partT, "dimension_types")
        array_names = ("MR_SUBVAR", "CA_SUBVAR", "NUM_ARRAY")
        row_cat = dts.ok and dts.value[0].name not in array_names
        col_cat = dts.ok and dts.value[1].name not in array_names
        ch = coordsT[0] != coordsB[0] or coordsT[1] != coordsB[1]
        changed |= ch
        before = len(res.violations)
        slice_core(res, partT, partB, coordsT[0], coordsT[1], coordsB[0], coordsB[1], ch,
                   row_cat, col_cat)
        for v in res.violations[before:]:
            v["key"] = "corpus/" + v["key"] if not v["key"].startswith(
                ("matrix/rows_margin_proportion", "matrix/columns_margin_proportion",
                 "outcome/rows_margin_proportion", "outcome/columns_margin_proportion")) \
                else v["key"]
    res.nontrivial = changed
    return res


def check_case(case):
    if "fixture" in case:
        return _check_corpus(case)
    res = CaseResult()
    trT = case.get("transforms") or {}
    trB = T.strip_display(trT)
    caseB = dict(case)
    caseB["transforms"] = trB
    LT = cases.realize(case)
    LB = cases.realize(caseB)
    o = LT.oracle
    nd = o.ndim
    res.descriptor = cases.describe(case)
    for key in ("rows_dimension", "columns_dimension"):
        d = trT.get(key) or {}
        if any(isinstance(v, dict) and v.get("hide") for v in (d.get("elements") or {}).values()):
            res.classes.append("hide")
        if d.get("prune"):
            res.classes.append("prune")
        if d.get("order"):
            res.classes.append("order=%s" % d["order"].get("type"))
            if d["order"].get("type") not in ("explicit", "payload_order"):
                res.classes.append("sorted")
    pT, pB = read(LT.cube, "partitions"), read(LB.cube, "partitions")
    if not res.check("partitions_readable", pT.ok and pB.ok, "exception/partitions",
                     {"T": repr(pT.exc), "B": repr(pB.exc)}):
        return res
    changed = False
    for t, (partT, partB) in enumerate(zip(pT.value, pB.value)):
        if nd == 1:
            changed |= _strand(res, LT, LB, partT, partB, trT, trB)
        else:
            changed |= _slice(res, LT, LB, t, partT, partB, trT, trB)
    res.nontrivial = o.N >= 5 and changed
    return res


def _order(res, part, which):
    got = read(part, which)
    if not got.ok:
        res.check("order_readable", False, "exception/%s" % which, {"exc": repr(got.exc)})
        return None
    return [int(x) for x in got.value]


def _reindex_positions(cT, cB):
    """For each T position the B position with the same canonical coordinate (or None)."""
    posB = {}
    for k, c in enumerate(cB):
        posB.setdefault(c[:2], k)
    return [posB.get(c[:2]) for c in cT]


def _slice(res, LT, LB, t, partT, partB, trT, trB):
    o = LT.oracle
    R, C = o.ndim - 2, o.ndim - 1
    rsT = expect.resolved_subtotals(o, R, trT.get("rows_dimension"))
    csT = expect.resolved_subtotals(o, C, trT.get("columns_dimension"))
    rsB = expect.resolved_subtotals(o, R, trB.get("rows_dimension"))
    csB = expect.resolved_subtotals(o, C, trB.get("columns_dimension"))
    roT, coT = _order(res, partT, "row_order"), _order(res, partT, "column_order")
    roB, coB = _order(res, partB, "row_order"), _order(res, partB, "column_order")
    if None in (roT, coT, roB, coB):
        return False
    rT, cT = coords(roT, rsT), coords(coT, csT)
    rB, cB = coords(roB, rsB), coords(coB, csB)
    row_cat, col_cat = o.typestr(R) == "CAT", o.typestr(C) == "CAT"
    return slice_core(res, partT, partB, rT, cT, rB, cB, roT != roB or coT != coB, row_cat,
                      col_cat)


def slice_core(res, partT, partB, rT, cT, rB, cB, changed, row_cat, col_cat):
    """Compare every public output of partT with partB re-indexed by canonical coordinates.

    rT/cT/rB/cB: per display position a tuple whose first two items identify the element or
    subtotal ("e", idx) / ("s", name[, k]).
    """
    # no element or subtotal listed twice
    for name, cc in (("row_order", rT), ("column_order", cT)):
        keys = [c[:2] if c[0] == "e" else ("s", c[-1]) for c in cc]
        res.check("no_duplicates", len(set(keys)) == len(keys), "duplicates/%s" % name,
                  {"order": [list(c) for c in cc]})
    ri, ci = _reindex_positions(rT, rB), _reindex_positions(cT, cB)
    if not res.check("subset_of_baseline", None not in ri and None not in ci,
                     "order/not_in_baseline", {"rows": ri, "cols": ci}):
        return False
    ri, ci = np.array(ri, dtype=int), np.array(ci, dtype=int)
    nr, nc = len(ri), len(ci)
    shape = read(partT, "shape")
    res.check("extent", shape.ok and tuple(shape.value) == (nr, nc), "extent/shape",
              {"shape": repr(shape)[:80], "orders": [nr, nc]})

    def kind_of(name, vT):
        if name in MATRIX:
            return "matrix"
        if name in ROW_MARG:
            return "row"
        if name in COL_MARG:
            return "col"
        if name in DEPENDS:
            axis = DEPENDS[name]
            one_d = col_cat if axis == 0 else row_cat
            return ("row" if axis == 0 else "col") if one_d else "matrix"
        if name in SCALAR:
            return "scalar"
        if name in IDX_ROW:
            return "idx_row"
        if name in IDX_COL:
            return "idx_col"
        if name in PAIRWISE_MATRIX:
            return "pw_matrix"
        if name in PAIRWISE_COLVEC:
            return "pw_col"
        if name in SKIP:
            return "skip"
        # unknown: by shape, only when unambiguous
        a = np.asarray(vT) if vT is not None else None
        if a is not None and len({nr, nc, 2}) == 3:
            if a.shape == (nr, nc):
                return "matrix"
            if a.shape == (nr,):
                return "row"
            if a.shape == (nc,):
                return "col"
            if a.shape == ():
                return "scalar"
        return "unknown"

    empty = nr == 0 or nc == 0
    for name in public_names(partT):
        if name == "summary_pairwise_indices" and not (row_cat and col_cat):
            res.skipped["legacy:summary_pairwise_indices on array dims"] += 1
            continue
        gT, gB = read(partT, name), read(partB, name)
        if not gT.ok or not gB.ok:
            if empty:
                # nothing is displayed: whether an accessor of an empty table raises is not
                # what the property is about
                res.skipped["empty_partition_outcome"] += 1
                continue
            same_exc = (not gT.ok) and (not gB.ok) and type(gT.exc) is type(gB.exc)
            form = ""
            if name in DEPENDS:
                one_d = col_cat if DEPENDS[name] == 0 else row_cat
                form = "/1d" if one_d else "/2d"
            res.check("same_outcome", same_exc, "outcome/%s%s" % (name, form),
                      {"T": repr(gT)[:200], "B": repr(gB)[:200]})
            continue
        vT, vB = gT.value, gB.value
        k = kind_of(name, vT)
        if k in ("skip", "unknown"):
            res.skipped[k + ":" + name] += 1
            continue
        if vT is None or vB is None:
            res.check("same_outcome", vT is None and vB is None, "none/%s" % name,
                      {"T": repr(vT)[:100], "B": repr(vB)[:100]})
            continue
        _compare(res, name, k, vT, vB, ri, ci, nr, nc, rT, cT, rB, cB)
    # table_base / table_margin: scalar, per column, per row or per cell by type pairing
    for name in ("table_base", "table_margin"):
        gT, gB = read(partT, name), read(partB, name)
        if gT.ok and gB.ok:
            k = ("scalar" if row_cat and col_cat else "col" if row_cat else
                 "row" if col_cat else "matrix")
            _compare(res, name, k, gT.value, gB.value, ri, ci, nr, nc, rT, cT, rB, cB)
    # objects with several arrays
    mT, mB = read(partT, "min_base_size_mask"), read(partB, "min_base_size_mask")
    if mT.ok and mB.ok and not empty:
        for a in ("row_mask", "column_mask", "table_mask"):
            _compare(res, "min_base_size_mask." + a, "matrix", read(mT.value, a).value,
                     read(mB.value, a).value, ri, ci, nr, nc, rT, cT, rB, cB)
    sT, sB = read(partT, "residual_test_stats"), read(partB, "residual_test_stats")
    if sT.ok and sB.ok:
        for z in range(2):
            _compare(res, "residual_test_stats[%d]" % z, "matrix", np.asarray(sT.value)[z],
                     np.asarray(sB.value)[z], ri, ci, nr, nc, rT, cT, rB, cB)
    # pairwise t / p for one selected display column follow the display position
    if nc:
        jT = nc // 2
        for fn in ("pairwise_significance_t_stats", "pairwise_significance_p_vals",
                   "pairwise_significance_means_t_stats", "pairwise_significance_means_p_vals"):
            gT, gB = read(partT, fn, jT), read(partB, fn, int(ci[jT]))
            if gT.ok and gB.ok:
                _compare(res, fn, "matrix", gT.value, gB.value, ri, ci, nr, nc, rT, cT, rB, cB)
            elif gT.ok != gB.ok:
                res.check("same_outcome", False, "outcome/%s" % fn,
                          {"T": repr(gT)[:200], "B": repr(gB)[:200]})
    # payload_order: the baseline's sequence minus what T hides
    poT, poB = read(partT, "payload_order"), read(partB, "payload_order")
    if poT.ok and poB.ok:
        vis_rows = set(c[1] for c in rT if c[0] == "e")
        expB = [x for x in poB.value if not (isinstance(x, (int, np.integer))
                                             and int(x) not in vis_rows)]
        gotT = list(poT.value)
        # subtotal rows pruned as a group disappear from display but payload_order keeps them
        res.check("labels", [str(x) for x in gotT] == [str(x) for x in expB]
                  or not any(c[0] == "s" for c in rT) and [str(x) for x in gotT if not str(
                      x).startswith("ins_")] == [str(x) for x in expB if not str(x).startswith(
                          "ins_")], "payload_order", {"T": snap(gotT), "B_filtered": snap(expB)})
    return changed


def _compare(res, name, k, vT, vB, ri, ci, nr, nc, rT, cT, rB, cB):
    try:
        if k == "matrix":
            a, b = np.asarray(vT), np.asarray(vB)
            if not res.check("extent", a.shape == (nr, nc), "extent/%s" % name,
                             {"got": list(a.shape), "exp": [nr, nc]}):
                return
            exp = b[np.ix_(ri, ci)] if b.ndim == 2 else b
            ok, det = _same(a, exp)
            res.check("matrix", ok, "matrix/%s%s" % (name, "/2d" if name in DEPENDS else ""),
                      det)
        elif k in ("row", "col"):
            idx, n = (ri, nr) if k == "row" else (ci, nc)
            a = np.asarray(vT, dtype=object) if isinstance(vT, tuple) else np.asarray(vT)
            b = np.asarray(vB, dtype=object) if isinstance(vB, tuple) else np.asarray(vB)
            if not res.check("extent", a.shape[:1] == (n,), "extent/%s" % name,
                             {"got": list(a.shape), "exp": [n]}):
                return
            ok, det = _same(a, b[idx])
            mon = "labels" if a.dtype.kind in "OUS" else ("row_marginal" if k == "row"
                                                          else "col_marginal")
            res.check(mon, ok, "%s/%s" % ("row_marginal" if k == "row" else "col_marginal",
                                          name), det)
        elif k == "scalar":
            ok = snap(vT) == snap(vB)
            if not ok:
                try:
                    ok = cmp.same(np.asarray(vT, dtype=float), np.asarray(vB, dtype=float))[0]
                except Exception:
                    ok = False
            res.check("scalar", ok, "scalar/%s" % name, {"T": snap(vT), "B": snap(vB)})
        elif k in ("idx_row", "idx_col"):
            cc_t, cc_b = (rT, rB) if k == "idx_row" else (cT, cB)
            # a position beyond the displayed extent points at nothing: a violation in itself
            if not res.check("index_lists", all(0 <= int(i) < len(cc_t) for i in vT),
                             "index_lists/%s/out_of_range" % name,
                             {"T": snap(vT), "displayed": len(cc_t)}):
                return
            setT = set(cc_t[i][:2] for i in vT)
            vis = set(c[:2] for c in cc_t)
            setB = set(cc_b[i][:2] for i in vB) & vis
            res.check("index_lists", setT == setB and len(set(vT)) == len(vT),
                      "index_lists/%s" % name, {"T": snap(vT), "B": snap(vB)})
        elif k == "pw_matrix":
            a, b = np.asarray(vT, dtype=object), np.asarray(vB, dtype=object)
            if a.ndim != 2 or a.shape != (nr, nc):
                res.check("extent", a.size == 0 and nr * nc == 0, "extent/%s" % name,
                          {"got": list(a.shape), "exp": [nr, nc]})
                return
            visc = set(c[:2] for c in cT)
            bad = None
            for i in range(nr):
                for j in range(nc):
                    sT = set(cT[x][:2] for x in a[i, j])
                    sB = set(cB[x][:2] for x in b[ri[i], ci[j]]) & visc
                    if sT != sB or cT[j][:2] in sT:
                        bad = bad or {"at": [i, j], "T": snap(a[i, j]),
                                      "B": snap(b[ri[i], ci[j]])}
            res.check("pairwise_indices", bad is None, "pairwise_indices/%s" % name, bad)
        elif k == "pw_col":
            visc = set(c[:2] for c in cT)
            bad = None
            for j in range(nc):
                sT = set(cT[x][:2] for x in vT[j])
                sB = set(cB[x][:2] for x in vB[ci[j]]) & visc
                if sT != sB:
                    bad = bad or {"at": j, "T": snap(vT[j]), "B": snap(vB[ci[j]])}
            res.check("pairwise_indices", bad is None, "pairwise_indices/%s" % name, bad)
    except Exception as e:  # shape surprises are findings about alignment, not harness bugs
        res.check("comparable", False, "uncomparable/%s" % name,
                  {"exc": repr(e), "T": repr(vT)[:200], "B": repr(vB)[:200]})


def _same(a, b):
    a, b = np.asarray(a), np.asarray(b)
    if a.dtype.kind in "OUS" or b.dtype.kind in "OUS":
        ok = a.shape == b.shape and snap(a) == snap(b)
        return ok, (None if ok else {"T": snap(a), "B_reindexed": snap(b)})
    if a.dtype == bool or b.dtype == bool:
        ok = a.shape == b.shape and np.array_equal(a, b)
        return ok, (None if ok else {"T": snap(a), "B_reindexed": snap(b)})
    return cmp.same(a.astype(float), b.astype(float), rtol=1e-12, atol=0)


def _strand(res, LT, LB, partT, partB, trT, trB):
    o = LT.oracle
    sT = expect.resolved_subtotals(o, 0, trT.get("rows_dimension"))
    sB = expect.resolved_subtotals(o, 0, trB.get("rows_dimension"))
    roT, roB = _order(res, partT, "row_order"), _order(res, partB, "row_order")
    if roT is None or roB is None:
        return False
    rT, rB = coords(roT, sT), coords(roB, sB)
    keys = [c[:2] if c[0] == "e" else ("s", c[2]) for c in rT]
    res.check("no_duplicates", len(set(keys)) == len(keys), "duplicates/strand.row_order",
              {"order": [list(c) for c in rT]})
    ri = _reindex_positions(rT, rB)
    if not res.check("subset_of_baseline", None not in ri, "order/not_in_baseline",
                     {"rows": ri}):
        return False
    ri = np.array(ri, dtype=int)
    nr = len(ri)
    shape = read(partT, "shape")
    res.check("extent", shape.ok and tuple(shape.value) == (nr,), "extent/strand.shape",
              {"shape": repr(shape)[:80], "n": nr})
    for name in public_names(partT):
        gT, gB = read(partT, name), read(partB, name)
        if not gT.ok or not gB.ok:
            same_exc = (not gT.ok) and (not gB.ok) and type(gT.exc) is type(gB.exc)
            res.check("same_outcome", same_exc, "strand/outcome/%s" % name,
                      {"T": repr(gT)[:200], "B": repr(gB)[:200]})
            continue
        vT, vB = gT.value, gB.value
        if name in STRAND_VEC:
            if vT is None or vB is None:
                continue
            a = np.asarray(vT, dtype=object) if isinstance(vT, tuple) else np.asarray(vT)
            b = np.asarray(vB, dtype=object) if isinstance(vB, tuple) else np.asarray(vB)
            if not res.check("extent", a.shape == (nr,), "extent/strand.%s" % name,
                             {"got": list(a.shape), "exp": [nr]}):
                continue
            ok, det = _same(a, b[ri])
            res.check("strand_vector", ok, "strand/%s" % name, det)
        elif name in SCALAR or name in ("table_base_range", "table_margin_range"):
            ok = snap(vT) == snap(vB)
            res.check("scalar", ok, "strand/scalar/%s" % name, {"T": snap(vT), "B": snap(vB)})
        elif name in IDX_ROW:
            if not res.check("index_lists", all(0 <= int(i) < len(rT) for i in vT),
                             "strand/index_lists/%s/out_of_range" % name,
                             {"T": snap(vT), "displayed": len(rT)}):
                continue
            setT = set(rT[i][:2] for i in vT)
            setB = set(rB[i][:2] for i in vB) & set(c[:2] for c in rT)
            res.check("index_lists", setT == setB, "strand/index_lists/%s" % name,
                      {"T": snap(vT), "B": snap(vB)})
        else:
            res.skipped["strand:" + name] += 1
    return roT != roB
