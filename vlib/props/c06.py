"""C06 - partitioning of 3-D and multi-cube responses restricts to the right respondents (M + R)."""

import copy
import json

import numpy as np

from .. import cases, cmp, gen, sim, expect, partcmp, transforms as T
from ..harness import CaseResult
from ..probe import read, snap

ID = "C06"
TITLE = "Partitioning of 3-D and multi-cube responses restricts to the right respondents"
T3 = [
    "cat|cat|cat", "cat|cat|mr", "cat|mr|cat", "cat|mr|mr", "mr|cat|cat", "mr|cat|mr",
    "mr|mr|cat", "mr|mr|mr", "cat|cai|cac", "cat|cac|cai", "mr|cai|cac", "mr|cac|cai",
    "cai|cac|cat", "cai|cac|mr", "cai|mr|cac", "cai|cat|cac", "cat_date|cat|cat",
    "text|cat|mr", "cat|cat_date|cat", "binned|mr|cat", "numarr|cat|cat", "numarr|cat|mr",
    "numarr|mr|cat",
]
MODES = ["3d"] * 6 + ["tabbook", "ca0", "numsum", "tabbook"]
RULE = (
    "W1 synthetic surveys. 3-D: %d templates (table axis CAT with interleaved missing "
    "categories, MR, CA items) x weighting x measures, square shapes forced in half of the "
    "cases (n_table == n_rows == n_cols); partition k is compared, output by output, with the "
    "2-D analysis of the same rows x columns on the sub-survey of the respondents who belong "
    "to table element k (built by the same builder from the restricted respondents). "
    "Multi-cube sets: tabbook (1-D rows cube + 2-D cubes), CA-as-0th (2-D CA cube + 3-D "
    "cubes) and numeric summaries (0-D + 1-D cubes). Non-trivial: >= 2 table elements, "
    "N >= 6 and the partitions are not all equal." % len(T3))
ASSUMPTIONS = [
    "response builder as in C01 (the twin response is produced by the same builder from the "
    "restricted respondents, so a builder bug common to both sides cancels; C01 compares the "
    "3-D partitions with the respondent-level oracle directly)",
    "single-column filter cubes (augment_response) are not generated",
]
TECHNIQUE = "relational runtime monitor (3-D partition k vs 2-D twin on restricted respondents; CubeSet partitions vs stand-alone analyses)"
DESIGN_REF = "DESIGN.md 4 C06"
WEIGHTS = ["none", "frac", "zeros"]
REQUIRED_REACH = ["partition_count", "twin", "table_name", "tabbook", "ca_as_0th", "numsum",
                  "class:table=CAT", "class:table=MR", "class:table=ARR", "class:square",
                  "class:table=NUMARR",
                  "class:corpus", "filtercols", "class:augmented",
                  "class:augmented_missing_not_last"]
BATCH = 20
UNIT_TIMEOUT_S = 40


def units(tier, seed):
    from .. import corpus

    n = 800 if tier == "quick" else 30000
    # W1 synthetic surveys, then W3: the real 3-D payloads of the fixture corpus
    fc = [{"fc": k, "seed": seed} for k in range(80 if tier == "quick" else 3000)]
    return [{"i": i, "seed": seed} for i in range(n)] + fc + corpus.units(
        tier, seed, reps=2 if tier == "quick" else 12)


def make_case(unit):
    if "corpus" in unit:
        from .. import corpus

        rel = corpus.fixture_paths()[unit["corpus"]]
        g = gen.G("C06/corpus/%s/%s/%s" % (unit["seed"], unit["corpus"], unit["rep"]))
        return {"mode": "corpus3d", "fixture": rel, "population": 1000,
                "transforms": {} if unit["rep"] == 0 else
                corpus.random_full_transforms(g, corpus.load(rel))}
    if "fc" in unit:
        from .. import filtercols
        return filtercols.make_case(gen.G("C06/fc/%s/%s" % (unit["seed"], unit["fc"])), "C06")
    i = unit["i"]
    g = gen.G("C06/%s/%s" % (unit["seed"], i))
    mode = MODES[i % len(MODES)]
    j = i // len(MODES)
    wmode = WEIGHTS[j % len(WEIGHTS)]
    N = g.pick([6, 10, 16, 25, 40, 60])
    w = g.weights(N, wmode)
    if mode == "3d":
        template = T3[j % len(T3)]
        square = g.pick([None, 2, 3, 3])
        facets = cases.random_facets(g, template, N, square=square, p_zero=0.1)
        cases.entangle_some(g, facets)
        tr = {}
        if g.chance(0.5):
            cases.attach_insertions(g, facets, tr)
        mset = g.pick([(), (), ("mean",), ("sum", "stddev")])
        if "numarr" in template:
            mset = g.pick([("mean",), ("mean", "sum"), ("sum",)])
        elif facets[-1][0] == "mr" and g.chance(0.8):
            mset = tuple(mset) + ("overlap",)  # overlap-corrected pairwise tests per table
        if "numarr" not in template and w is not None and "overlap" not in mset and \
                gen.stratum(ID, i, "sq", 2):
            # squared weights (effective bases of the pairwise tests): one more cube-level
            # array that has to be cut along the table dimension like the counts
            mset = tuple(mset) + ("sq_weights",)
        spec = sim.CubeSpec(facets, w, mset, g.num(N) if (
            set(mset) - {"overlap", "sq_weights"} and "numarr" not in template) else None)
        if g.chance(0.4):
            from .c05 import add_display_transforms

            add_display_transforms(g, spec, tr, kinds=["none", "explicit", "payload_order",
                                                       "label"])
        return {"mode": mode, "template": template, "spec": sim.spec_to_dict(spec),
                "transforms": tr, "population": 500, "square": square}
    if mode == "tabbook":
        rows = g.cat(N, kind=g.pick(["cat", "cat", "cat_date"]))
        if g.chance(0.5):
            rows.view_insertions = gen.gen_insertions(
                g, [c["id"] for c in rows.valid_cats],
                [c["id"] for c in rows.cats if c.get("missing")])
        rows_is_mr = g.chance(0.3)
        if rows_is_mr:
            rows = g.mr(N)
        rrole = "mr" if rows_is_mr else "cat"
        specs = [sim.CubeSpec([(rrole, rows)], w)]
        for _ in range(g.r.randint(1, 3)):
            col = g.mr(N) if g.chance(0.4) else g.cat(N)
            specs.append(sim.CubeSpec([(rrole, rows), ("mr" if isinstance(col, sim.MRVar)
                                                     else "cat", col)], w))
        trs = [{} for _ in specs]
        return {"mode": mode, "specs": [sim.spec_to_dict(s) for s in specs],
                "transforms_list": trs, "population": 500}
    if mode == "ca0":
        ca = g.ca(N, n_items=g.r.randint(2, 4))
        if g.chance(0.5):
            ca.view_insertions = gen.gen_insertions(
                g, [c["id"] for c in ca.valid_cats],
                [c["id"] for c in ca.cats if c.get("missing")])
        specs = [sim.CubeSpec([("ca_items", ca), ("ca_cats", ca)], w)]
        for _ in range(g.r.randint(1, 2)):
            col = g.mr(N) if g.chance(0.4) else g.cat(N)
            specs.append(sim.CubeSpec(
                [("ca_items", ca), ("ca_cats", ca),
                 ("mr" if isinstance(col, sim.MRVar) else "cat", col)], w))
        trs = [{} for _ in specs]
        if g.chance(0.6):
            # the categories are the *rows* of every strand and slice: rows transforms must
            # reach them (and columns transforms must not) in the CA-as-0th cube as well
            from .. import transforms as T

            vids = [c["id"] for c in ca.valid_cats]
            mids = [c["id"] for c in ca.cats if c.get("missing")]
            for j, tr in enumerate(trs):
                rd = {}
                if g.chance(0.7):
                    rd["insertions"] = gen.gen_insertions(g, vids, mids, hide_some=False)
                els = T.random_hides(g, vids, p=0.5)
                if els:
                    rd["elements"] = els
                if g.chance(0.3):
                    rd["order"] = {"type": "explicit", "element_ids": g.r.sample(vids, len(vids))}
                if rd:
                    tr["rows_dimension"] = rd
                if j == 0 and g.chance(0.5) and vids:
                    tr["columns_dimension"] = {"elements": {str(g.pick(vids)): {"hide": True}}}
        return {"mode": mode, "specs": [sim.spec_to_dict(s) for s in specs],
                "transforms_list": trs, "population": 500}
    # numeric summary
    x = g.num(N)
    mset = g.pick([("mean",), ("mean", "stddev"), ("sum",), ("mean", "valid_counts")])
    specs = [sim.CubeSpec([], w, mset, x)]
    for _ in range(g.r.randint(1, 3)):
        col = g.mr(N) if g.chance(0.3) else g.cat(N)
        specs.append(sim.CubeSpec([("mr" if isinstance(col, sim.MRVar) else "cat", col)], w,
                                  mset, x))
    return {"mode": mode, "specs": [sim.spec_to_dict(s) for s in specs],
            "transforms_list": [{} for _ in specs], "population": 500}


# --------------------------------------------------------------------------------- 3-D


def twin_spec(spec, k):
    """2-D query equal to table k of the 3-D query `spec`, on the restricted respondents."""
    (trole, tvar), f1, f2 = spec.facets
    if trole == "cat":
        o = sim.Oracle(spec)
        keep = o._cat_mask(tvar, k)
        s = spec.restrict(keep)
        s.facets = s.facets[1:]
        return s
    if trole == "mr":
        keep = tvar.state[:, k] == sim.SEL
        s = spec.restrict(keep)
        s.facets = s.facets[1:]
        return s
    if trole == "numarr":
        # sub-variable k of the array becomes the measured numeric variable
        s = copy.copy(spec)
        s.facets = list(spec.facets[1:])
        s.numvar = sim.NumVar("%s_%d" % (tvar.alias, k), tvar.x[:, k].copy())
        s.measures = set(spec.measures) | {"valid_counts"}
        return s
    if trole == "ca_items":
        # the CA categories of item k become a plain categorical variable
        ca = tvar
        catv = sim.CatVar(ca.alias, copy.deepcopy(ca.cats), ca.ans[:, k].copy(), "cat",
                          copy.deepcopy(ca.view_insertions), None, ca.name)
        s = copy.copy(spec)
        s.facets = [("cat", catv) if (r == "ca_cats" and v is ca) else (r, v)
                    for r, v in spec.facets[1:]]
        return s
    return None


SKIP_3D = {"rows_dimension_type", "columns_dimension_type", "dimension_types", "name",
           "description", "rows_dimension_description", "rows_dimension_name",
           "columns_dimension_name", "columns_dimension_description", "variable_name",
           "rows_dimension_alias", "selected_category_labels"}


def _check_3d(res, case):
    L = cases.realize(case)
    o = L.oracle
    spec = L.spec
    res.descriptor = cases.describe(case)
    res.classes.append("table=%s" % o.typestr(0))
    if o.facets[0][0] == "numarr":
        res.classes.append("table=NUMARR")
    if case.get("square"):
        res.classes.append("square")
    parts = read(L.cube, "partitions")
    if not res.check("partitions_readable", parts.ok, "exception/partitions",
                     {"exc": repr(parts.exc)}):
        return
    nt = o.n_valid(0)
    res.check("partition_count", len(parts.value) == nt, "partition_count",
              {"got": len(parts.value), "exp": nt})
    trole, tvar = o.facets[0]
    if trole == "cat":
        labels = [c["name"] for c in tvar.valid_cats] if tvar.kind not in (
            "text", "datetime", "binned") else None
    else:
        labels = [it["name"] for it in tvar.items]
    snaps = set()
    for k, part in enumerate(parts.value[:nt]):
        # naming
        tn = read(part, "table_name")
        if labels is not None:
            exp = "%s: %s" % (tvar.name, labels[k])
            res.check("table_name", tn.ok and tn.value == exp, "table_name",
                      {"got": repr(tn)[:200], "exp": exp})
        tl = read(part, "tab_label")
        exp = labels[k] if trole == "ca_items" else ""
        res.check("table_name", tl.ok and tl.value == exp, "tab_label",
                  {"got": repr(tl)[:200], "exp": exp})
        c = read(part, "counts")
        if c.ok:
            snaps.add(json.dumps(snap(c.value)))
        tw = twin_spec(spec, k)
        if tw is None:
            res.skipped["no_twin:%s" % trole] += 1
            continue
        case2 = dict(case)
        case2["spec"] = sim.spec_to_dict(tw)
        L2 = cases.realize(case2)
        p2 = read(L2.cube, "partitions")
        if not res.check("twin", p2.ok and len(p2.value) == 1, "twin/partitions",
                         {"got": repr(p2)[:200]}):
            continue
        skip = set(SKIP_3D)
        if trole == "numarr":
            # the column index of a numeric-array response is outside C16's domain (its
            # baseline mixes counts and valid counts): not compared, as in C05 / C08
            skip |= {"column_index", "smoothed_column_index"}
        n = partcmp.compare_partitions(res, part, p2.value[0], "twin", "twin", skip=skip)
    res.nontrivial = nt >= 2 and o.N >= 6 and len(snaps) >= 2


# ----------------------------------------------------------------------------- multi-cube


def _cubeset(case, specs):
    from cr.cube.cube import CubeSet

    responses = [json.loads(json.dumps(sim.build_response(s))) for s in specs]
    trs = copy.deepcopy(case["transforms_list"])
    return CubeSet(responses, trs, case.get("population"), 0), responses


def _standalone(spec, tr, population, cube_idx=None):
    from cr.cube.cube import Cube

    resp = json.loads(json.dumps(sim.build_response(spec)))
    return Cube(resp, cube_idx=cube_idx, transforms=copy.deepcopy(tr), population=population,
                mask_size=0)


def _check_tabbook(res, case):
    specs = [sim.spec_from_dict(d) for d in case["specs"]]
    cs, _ = _cubeset(case, specs)
    res.descriptor = {"mode": "tabbook", "cubes": [len(s.facets) for s in specs],
                      "n": specs[0].n}
    ps = read(cs, "partition_sets")
    if not res.check("tabbook", ps.ok, "tabbook/exception", {"exc": repr(ps.exc)}):
        return
    res.check("tabbook", len(ps.value) == 1 and len(ps.value[0]) == len(specs),
              "tabbook/shape", {"got": [len(x) for x in ps.value]})
    if not ps.value:
        return
    diff = set()
    for j, part in enumerate(ps.value[0]):
        alone = _standalone(specs[j], case["transforms_list"][j], case.get("population"))
        pa = read(alone, "partitions")
        if pa.ok:
            partcmp.compare_partitions(res, part, pa.value[0], "tabbook", "tabbook/cube%d" % (
                1 if j else 0))
        # and against respondents directly
        o = sim.Oracle(specs[j])
        c = read(part, "unweighted_counts")
        if o.ndim == 1:
            exp = np.array([o.total({0: r}, (), False) for r in range(o.n_valid(0))])
        else:
            exp = np.array([[o.total({0: r, 1: cc}, (), False) for cc in range(o.n_valid(1))]
                            for r in range(o.n_valid(0))]).reshape(o.n_valid(0), o.n_valid(1))
        ro = [int(x) for x in read(part, "row_order").value]
        rpos = [p for p, e in enumerate(ro) if e >= 0]
        ridx = [e for e in ro if e >= 0]
        if c.ok and o.ndim == 2:
            co = [int(x) for x in read(part, "column_order").value]
            cpos = [p for p, e in enumerate(co) if e >= 0]
            cidx = [e for e in co if e >= 0]
            got_base = np.asarray(c.value)[np.ix_(rpos, cpos)]
            exp = exp[np.ix_(ridx, cidx)]
        elif c.ok:
            got_base = np.asarray(c.value)[rpos]
            exp = exp[ridx]
        ok, det = cmp.same(got_base, exp, exact=True) if c.ok else (
            False, {"exc": repr(c.exc)})
        res.check("tabbook", ok, "tabbook/counts_vs_respondents", det)
        diff.add(json.dumps(snap(c.value)) if c.ok else "x")
    for attr in ("is_ca_as_0th", "has_weighted_counts", "name", "n_responses"):
        read(cs, attr)
    res.nontrivial = specs[0].n >= 6 and len(diff) >= 2


def _check_ca0(res, case):
    specs = [sim.spec_from_dict(d) for d in case["specs"]]
    ca = specs[0].facets[0][1]
    cs, _ = _cubeset(case, specs)
    res.descriptor = {"mode": "ca_as_0th", "items": len(ca.items),
                      "cubes": [len(s.facets) for s in specs], "n": specs[0].n}
    flag = read(cs, "is_ca_as_0th")
    res.check("ca_as_0th", flag.ok and flag.value is True, "ca0/is_ca_as_0th",
              {"got": repr(flag)[:100]})
    ps = read(cs, "partition_sets")
    if not res.check("ca_as_0th", ps.ok, "ca0/exception", {"exc": repr(ps.exc)}):
        return
    n_items = len(ca.items)
    res.check("ca_as_0th", len(ps.value) == n_items and all(
        len(x) == len(specs) for x in ps.value), "ca0/shape",
        {"got": [len(x) for x in ps.value], "items": n_items, "cubes": len(specs)})
    diff = set()
    for k, pset in enumerate(ps.value[:n_items]):
        catv = sim.CatVar(ca.alias, copy.deepcopy(ca.cats), ca.ans[:, k].copy(), "cat",
                          copy.deepcopy(ca.view_insertions), None, ca.name)
        # strand k == univariate analysis of sub-variable k
        tw = sim.CubeSpec([("cat", catv)], specs[0].weight)
        alone = _standalone(tw, case["transforms_list"][0], case.get("population"))
        pa = read(alone, "partitions")
        if pa.ok and pset:
            partcmp.compare_partitions(
                res, pset[0], pa.value[0], "ca_as_0th", "ca0/strand",
                skip={"rows_dimension_type", "dimension_types", "name", "rows_dimension_name",
                      "rows_dimension_description", "description", "variable_name",
                      "rows_dimension_alias", "selected_category_labels"})
            c = read(pset[0], "counts")
            diff.add(json.dumps(snap(c.value)) if c.ok else "x")
            tn = read(pset[0], "table_name")
            exp = "%s: %s" % (ca.name, ca.items[k]["name"])
            res.check("ca_as_0th", tn.ok and tn.value == exp, "ca0/strand/table_name",
                      {"got": repr(tn)[:200], "exp": exp})
        # slice (k, j) == table k of cube j == 2-D twin of item k x column variable
        for j in range(1, len(specs)):
            if j >= len(pset):
                break
            colf = specs[j].facets[2]
            tw2 = sim.CubeSpec([("cat", catv), colf], specs[j].weight)
            alone2 = _standalone(tw2, case["transforms_list"][j], case.get("population"))
            pa2 = read(alone2, "partitions")
            if pa2.ok:
                partcmp.compare_partitions(res, pset[j], pa2.value[0], "ca_as_0th",
                                           "ca0/slice", skip=SKIP_3D)
    res.nontrivial = specs[0].n >= 6 and len(diff) >= 2


def _check_numsum(res, case):
    specs = [sim.spec_from_dict(d) for d in case["specs"]]
    cs, _ = _cubeset(case, specs)
    res.descriptor = {"mode": "numeric_summary", "measures": sorted(specs[0].measures),
                      "cubes": [len(s.facets) for s in specs], "n": specs[0].n}
    ps = read(cs, "partition_sets")
    if not res.check("numsum", ps.ok, "numsum/exception", {"exc": repr(ps.exc)}):
        return
    res.check("numsum", len(ps.value) == 1 and len(ps.value[0]) == len(specs), "numsum/shape",
              {"got": [len(x) for x in ps.value]})
    if not ps.value:
        return
    pset = ps.value[0]
    stats = {"means": "mean", "sums": "sum", "stddev": "stddev"}
    vals = set()
    for j, part in enumerate(pset):
        o = sim.Oracle(specs[j])
        shp = read(part, "shape")
        exp_shape = (1,) if j == 0 else (1, o.n_valid(0))
        res.check("numsum", shp.ok and tuple(shp.value) == exp_shape, "numsum/padded_shape",
                  {"got": repr(shp)[:80], "exp": list(exp_shape)})
        alone = _standalone(specs[j], {}, case.get("population"))
        pa = read(alone, "partitions")
        for attr, stat in stats.items():
            if stat not in specs[j].measures:
                continue
            got = read(part, attr)
            if j == 0:
                exp = np.array([o.numeric({}, stat)])
            else:
                exp = np.array([[o.numeric({0: c}, stat) for c in range(o.n_valid(0))]])
            ok, det = cmp.same(got.value, exp, rtol=1e-9, atol=1e-9) if got.ok else (
                False, {"exc": repr(got.exc)})
            res.check("numsum", ok, "numsum/%s/cube%d" % (attr, 1 if j else 0), det)
            vals.add(json.dumps(snap(exp)))
            # padding changes no value: same numbers as the un-padded partition
            if pa.ok and j > 0:
                ga = read(pa.value[0], attr)
                if ga.ok and got.ok:
                    ok, det = cmp.same(np.asarray(got.value).ravel(),
                                       np.asarray(ga.value).ravel(), rtol=1e-12, atol=0)
                    res.check("numsum", ok, "numsum/%s/padded_vs_plain" % attr, det)
        if j > 0 and pa.ok:
            la, lb = read(part, "column_labels"), read(pa.value[0], "row_labels")
            res.check("numsum", la.ok and lb.ok and list(la.value) == list(lb.value),
                      "numsum/labels", {"padded": repr(la)[:200], "plain": repr(lb)[:200]})
            for attr in ("counts", "unweighted_counts"):
                ga, gb = read(part, attr), read(pa.value[0], attr)
                if ga.ok and gb.ok:
                    ok, det = cmp.same(np.asarray(ga.value).ravel(),
                                       np.asarray(gb.value).ravel(), exact=True)
                    res.check("numsum", ok, "numsum/%s/padded_vs_plain" % attr, det)
    res.nontrivial = specs[0].n >= 6 and len(vals) >= 2


def _check_corpus3d(res, case):
    """Partition k of a real 3-D payload vs the 2-D payload sliced out of it at element k."""
    from cr.cube.cube import Cube
    from .. import corpus

    resp = corpus.load(case["fixture"])
    res.descriptor = {"fixture": case["fixture"], "transforms": case["transforms"]}
    slices = corpus.table_slices(resp)
    if slices is None:
        res.skipped["corpus_not_a_plain_3d_cube"] += 1
        return
    res.classes.append("corpus")
    tr = case["transforms"]
    cube = Cube(json.loads(json.dumps(resp)), transforms=copy.deepcopy(tr),
                population=case["population"], mask_size=4)
    parts = read(cube, "partitions")
    if not parts.ok:
        res.skipped["corpus_partitions_unreadable"] += 1
        return
    res.check("partition_count", len(parts.value) == len(slices), "corpus/partition_count",
              {"got": len(parts.value), "exp": len(slices)})
    for k, resp2 in slices[:len(parts.value)]:
        c2 = Cube(resp2, transforms=copy.deepcopy(tr), population=case["population"],
                  mask_size=4)
        p2 = read(c2, "partitions")
        if not res.check("twin", p2.ok and len(p2.value) == 1, "corpus/twin/partitions",
                         {"got": repr(p2)[:200]}):
            continue
        partcmp.compare_partitions(res, parts.value[k], p2.value[0], "twin", "corpus/twin",
                                   skip=set(SKIP_3D))
    res.nontrivial = len(slices) >= 2


def check_case(case):
    if case.get("mode") == "filtercols":
        from .. import filtercols
        return filtercols.check(case, ID)
    res = CaseResult()
    mode = case["mode"]
    res.classes.append("mode=%s" % mode)
    if mode == "corpus3d":
        _check_corpus3d(res, case)
    elif mode == "3d":
        _check_3d(res, case)
    elif mode == "tabbook":
        _check_tabbook(res, case)
    elif mode == "ca0":
        _check_ca0(res, case)
    else:
        _check_numsum(res, case)
    return res
