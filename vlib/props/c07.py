"""C07 - anchored ordering: payload or explicit element order with subtotals at anchors.

Intrinsic monitor against an executable specification (vlib/spec_order.py); the bounded
configuration space is enumerated completely (DESIGN.md 4 C07).
"""

import itertools
import json

import numpy as np

from .. import cases, corpus, gen, sim, expect, w4, spec_order
from ..harness import CaseResult
from ..probe import read, snap

ID = "C07"
TITLE = "Anchored ordering: payload or explicit element order with subtotals at anchors"
RULE = (
    "Enumerated configurations of one categorical dimension driven through the public API: "
    "(number of valid elements n, position of one optional missing element, hidden subset, "
    "0-2 insertions with every anchor from {top, bottom, TOP, None, each id as int and as "
    "string, a stale id, the missing element's id}, explicit id list of length <= 3 over "
    "{ids, a stale id} incl. repeats or no explicit order, insertion ids all present / all "
    "absent, insertions on the variable view / in the analysis). Quick: all configurations with "
    "n <= 2 plus a seeded 1.5%% sample of n = 3; thorough: all n <= 3 (complete) plus random "
    "larger dimensions. Plus random 2-D slices (<= 8 elements, <= 5 insertions, rows and "
    "columns, hides, prune, both placements, derived MR items under explicit order). "
    "A case is a chunk of configurations; non-trivial = it contains at least one "
    "configuration with an insertion anchored to an element and at least one with an explicit "
    "order.")
ASSUMPTIONS = [
    "the executable specification in vlib/spec_order.py is the reading of the statement "
    "(25 lines, independent of cr.cube.collator)",
    "payload_order is judged only when insertions come from one source (view or analysis)",
]
TECHNIQUE = "runtime monitor against an executable ordering specification; bounded space enumerated exhaustively"
DESIGN_REF = "DESIGN.md 4 C07"
EXHAUSTIVE = {"quick": False, "thorough": True}
REQUIRED_REACH = ["signed_order", "bogus_order", "labels_codes", "payload_order",
                  "slice_rows", "slice_cols", "collator:ExplicitOrderCollator",
                  "collator:PayloadOrderCollator", "class:derived_mr"]
BATCH = 8
RULE = RULE + corpus.RULE_SUFFIX + w4.RULE_SUFFIX
REQUIRED_REACH = list(REQUIRED_REACH) + ["class:corpus", "class:w4"]
TECHNIQUE = TECHNIQUE + corpus.TECHNIQUE_SUFFIX
UNIT_TIMEOUT_S = 120
CHUNK = 400


# ------------------------------------------------------------------- configuration space


def configs_for(n):
    """Generator of all configurations for n valid elements (see RULE)."""
    ids = [10 + 3 * k for k in range(n)]  # 10, 13, 16
    for miss_pos in [None] + list(range(n + 1)):
        mid = 77 if miss_pos is not None else None
        anchors = ["top", "bottom", "TOP", None] + ids + [str(x) for x in ids] + [99]
        if mid is not None:
            anchors.append(mid)
        expl_alphabet = ids + [99]
        expl = [None]
        for L in range(0, 4):
            expl += [list(t) for t in itertools.product(expl_alphabet, repeat=L)]
        for hidden in itertools.chain.from_iterable(
                itertools.combinations(range(n), k) for k in range(n + 1)):
            for k_ins in (0, 1, 2):
                for anch in itertools.product(anchors, repeat=k_ins):
                    for e in expl:
                        for with_ids in ((True, False) if k_ins else (True,)):
                            for place in (("view", "analysis") if k_ins else ("view",)):
                                yield {"n": n, "miss_pos": miss_pos, "hidden": list(hidden),
                                       "anchors": list(anch), "explicit": e,
                                       "with_ids": with_ids, "place": place}


def count_configs(n):
    total = 0
    for miss_pos in [None] + list(range(n + 1)):
        na = 4 + 2 * n + 1 + (1 if miss_pos is not None else 0)
        ne = 1 + sum((n + 1) ** L for L in range(0, 4))
        for k_ins in (0, 1, 2):
            total += (2 ** n) * (na ** k_ins) * ne * (4 if k_ins else 1)
    return total


def units(tier, seed):
    out = []
    if tier == "quick":
        for n in (1, 2):
            tot = count_configs(n)
            for start in range(0, tot, CHUNK):
                out.append({"kind": "enum", "n": n, "start": start, "stop": min(tot, start + CHUNK),
                            "sample": None, "seed": seed})
        tot = count_configs(3)
        # 1.5 % sample of n = 3: chunks of consecutive configurations chosen by the seed
        import random
        r = random.Random("C07/%s" % seed)
        nchunks = tot // CHUNK
        for c in sorted(r.sample(range(nchunks), max(1, int(nchunks * 0.015)))):
            out.append({"kind": "enum", "n": 3, "start": c * CHUNK, "stop": (c + 1) * CHUNK,
                        "sample": "1.5%", "seed": seed})
        for i in range(600):
            out.append({"kind": "rand", "i": i, "seed": seed})
    else:
        for n in (1, 2, 3):
            tot = count_configs(n)
            step = CHUNK * 5
            for start in range(0, tot, step):
                out.append({"kind": "enum", "n": n, "start": start, "stop": min(tot, start + step),
                            "sample": None, "seed": seed})
        for i in range(6000):
            out.append({"kind": "rand", "i": i, "seed": seed})
    return out + corpus.units(tier, seed) + w4.units(tier, seed)  # W3: fixture corpus, intrinsic order relations


def make_case(unit):
    if "corpus" in unit:
        return corpus.make_case(ID, unit)
    if "w4" in unit:
        return w4.make_case(ID, unit)
    return dict(unit)


# ---------------------------------------------------------------------------- execution


def _strand_for(cfg):
    """(response, transforms, valid_ids, insertion list (dicts), from_view, names)."""
    n, mp = cfg["n"], cfg["miss_pos"]
    ids = [10 + 3 * k for k in range(n)]
    cats = [{"id": i, "name": "e%d" % i, "missing": False, "numeric_value": None} for i in ids]
    if mp is not None:
        cats.insert(mp, {"id": 77, "name": "m77", "missing": True, "numeric_value": None})
    counts = [3 + k for k in range(len(cats))]
    ins = []
    for k, a in enumerate(cfg["anchors"]):
        d = {"function": "subtotal", "name": "S%d" % (k + 1), "anchor": a,
             "args": [ids[k % n]] + ([ids[(k + 1) % n]] if n > 1 else [])}
        if cfg["with_ids"]:
            d["id"] = 7 - 2 * k  # ids not in definition order: 7, 5
        ins.append(d)
    refs = {"alias": "v", "name": "V"}
    tr_rows = {}
    if cfg["place"] == "view":
        refs["view"] = {"transform": {"insertions": ins}}
    else:
        tr_rows["insertions"] = ins
    if cfg["hidden"]:
        tr_rows["elements"] = {str(ids[h]): {"hide": True} for h in cfg["hidden"]}
    if cfg["explicit"] is not None:
        tr_rows["order"] = {"type": "explicit", "element_ids": list(cfg["explicit"])}
    resp = {"result": {
        "dimensions": [{"type": {"class": "categorical", "ordinal": False, "categories": cats},
                        "references": refs, "derived": False}],
        "counts": counts, "measures": {"count": {"data": counts, "n_missing": 0}},
        "n": sum(counts), "missing": 0, "element": "crunch:cube"}}
    tr = {"rows_dimension": tr_rows} if tr_rows else {}
    return resp, tr, ids, ins, cfg["place"] == "view"


def expected_orders(valid_ids, ins, from_view, explicit, hidden):
    subs = spec_order.valid_subtotals(ins, valid_ids, from_view=from_view)
    order = spec_order.display_order(valid_ids, subs, explicit, hidden)
    bogus = [e if e >= 0 else "ins_%s" % subs[e + len(subs)]["id"] for e in order]
    payload = spec_order.display_order(valid_ids, subs, None, hidden)
    payload_b = [e if e >= 0 else "ins_%s" % subs[e + len(subs)]["id"] for e in payload]
    return subs, order, bogus, payload_b


def _check_strand_cfg(res, cfg):
    from cr.cube.cube import Cube
    from cr.cube.enums import ORDER_FORMAT

    resp, tr, ids, ins, from_view = _strand_for(cfg)
    subs, order, bogus, payload_b = expected_orders(ids, ins, from_view, cfg["explicit"],
                                                    cfg["hidden"])
    part = Cube(json.loads(json.dumps(resp)), transforms=json.loads(json.dumps(tr))).partitions[0]
    got = read(part, "row_order")
    ok = got.ok and [int(x) for x in got.value] == order
    anchored = ""
    if not res.check("signed_order", ok, "strand/signed_order", {
            "cfg": cfg, "got": snap(got.value) if got.ok else repr(got.exc), "exp": order}):
        return
    gb = read(part, "row_order", ORDER_FORMAT.BOGUS_IDS)
    okb = gb.ok and [x if isinstance(x, str) else int(x) for x in gb.value.tolist()] == \
        [str(x) if isinstance(x, str) else x for x in bogus] if gb.ok and len(bogus) else (
            gb.ok and len(gb.value) == 0 and not bogus)
    if gb.ok and len(bogus):
        gl = [x if isinstance(x, str) and x.startswith("ins_") else int(x)
              for x in gb.value.tolist()]
        okb = gl == bogus
    key = "strand/bogus_order"
    if not okb and subs and not cfg["with_ids"]:
        raw = [s["raw"]["anchor"] for s in subs]
        key += "/idless_%s" % ("view" if from_view else "analysis")
        if from_view and any(isinstance(a, str) for a in raw):
            key += "/string_anchor"
    res.check("bogus_order", okb, key, {
        "cfg": cfg, "got": snap(gb.value) if gb.ok else repr(gb.exc), "exp": bogus})
    po = read(part, "payload_order")
    okp = po.ok and [x if isinstance(x, str) else int(x) for x in po.value] == payload_b
    key = "strand/payload_order"
    if not okp and subs and not cfg["with_ids"]:
        key += "/idless_%s" % ("view" if from_view else "analysis")
        if from_view and any(isinstance(s["raw"]["anchor"], str) for s in subs):
            key += "/string_anchor"
    res.check("payload_order", okp, key, {
        "cfg": cfg, "got": snap(po.value) if po.ok else repr(po.exc), "exp": payload_b})
    # labels / codes follow the same order
    names = ["e%d" % i for i in ids]
    exp_labels = [names[e] if e >= 0 else subs[e + len(subs)]["name"] for e in order]
    exp_codes = [ids[e] if e >= 0 else subs[e + len(subs)]["id"] for e in order]
    gl, gc = read(part, "row_labels"), read(part, "row_codes")
    res.check("labels_codes", gl.ok and list(gl.value) == exp_labels, "strand/row_labels",
              {"cfg": cfg, "got": snap(gl.value) if gl.ok else repr(gl.exc), "exp": exp_labels})
    key = "strand/row_codes"
    okc = gc.ok and [int(x) for x in gc.value] == exp_codes
    if not okc and subs and not cfg["with_ids"]:
        key += "/idless_%s" % ("view" if from_view else "analysis")
        if from_view and any(isinstance(s["raw"]["anchor"], str) for s in subs):
            key += "/string_anchor"
    res.check("labels_codes", okc, key,
              {"cfg": cfg, "got": snap(gc.value) if gc.ok else repr(gc.exc), "exp": exp_codes})


def check_case(case):
    if "fixture" in case:
        return corpus.check_case(ID, case)
    if case.get("w4"):
        return w4.check_case(ID, case)
    res = CaseResult()
    if case["kind"] == "enum":
        it = itertools.islice(configs_for(case["n"]), case["start"], case["stop"])
        n_anch = n_expl = 0
        for cfg in it:
            _check_strand_cfg(res, cfg)
            if any(isinstance(a, int) or (isinstance(a, str) and a.isdigit())
                   for a in cfg["anchors"]):
                n_anch += 1
            if cfg["explicit"]:
                n_expl += 1
        res.nontrivial = n_anch > 0 and n_expl > 0
        res.descriptor = {"kind": "enumerated chunk", "n_elements": case["n"],
                          "configs": [case["start"], case["stop"]], "sample": case["sample"],
                          "first_config": next(itertools.islice(configs_for(case["n"]),
                                                                case["start"], case["start"] + 1))}
        res.classes.append("enum_n=%d" % case["n"])
        return res
    return _check_random(res, case)


# ---------------------------------------------------------------- random larger slices


def _check_random(res, case):
    from cr.cube.enums import ORDER_FORMAT
    from .. import transforms as T

    g = gen.G("C07r/%s/%s" % (case["seed"], case["i"]))
    focus = case["i"] % 3 == 0  # derived MR items under an explicit order, every third case
    template = g.pick(["mr", "cat|mr", "mr|cat", "mr|mr"]) if focus else g.pick(
        ["cat|cat", "cat|mr", "mr|cat", "cat", "cat_date|cat", "cat|cat|cat", "mr|mr",
         "cai|cac", "cac|cai"])
    N = g.pick([8, 15, 25])
    nparts = len(template.split("|"))
    sizes = [g.r.randint(1, 8) for _ in range(nparts)]
    facets = cases.random_facets(g, template, N, sizes=sizes, p_zero=0.25)
    derived = False
    for role, v in facets:
        if role == "mr" and (focus or g.chance(0.6)):
            derived |= _derive_items(g, v)
    tr = {}
    cases.attach_insertions(g, facets, tr, n=g.r.randint(1, 5))
    spec = sim.CubeSpec(facets, None, ())
    o = sim.Oracle(spec)
    nd = o.ndim
    dims = [("rows_dimension", 0, "row_order")] if nd == 1 else [
        ("rows_dimension", nd - 2, "row_order"), ("columns_dimension", nd - 1, "column_order")]
    for key, d, _ in dims:
        ids, _k = T.transform_ids(o, d)
        dd = tr.setdefault(key, {})
        if g.chance(0.5):
            els = T.random_hides(g, ids, p=1.0, renames=False)
            if els:
                dd["elements"] = els
        if g.chance(0.3):
            dd["prune"] = True
        if g.chance(0.6) or (focus and o.facets[d][0] == "mr"):
            od = T.random_order(g, ids, [], [], [], "rows", nd == 1, [],
                                kinds=["explicit"] if focus else
                                ["explicit", "explicit", "payload_order"])
            if od:
                dd["order"] = od
        if not dd:
            del tr[key]
    casex = {"template": template, "spec": sim.spec_to_dict(spec), "transforms": tr}
    res.descriptor = cases.describe(casex)
    if derived:
        res.classes.append("derived_mr")
    L = cases.realize(casex)
    parts = read(L.cube, "partitions")
    if not res.check("partitions_readable", parts.ok, "exception/partitions",
                     {"exc": repr(parts.exc)}):
        return res
    anchored = explicit = False
    for t, part in enumerate(parts.value):
        for key, d, oname in dims:
            tdim = tr.get(key) or {}
            ids, kind = T.transform_ids(o, d)
            subs = expect.resolved_subtotals(o, d, tdim)
            hidden = _hidden(tdim, ids)
            # pruned = what the partition's own pruning leaves out is C09's business: take
            # the empties from the order itself only when prune is on
            got = read(part, oname)
            if not res.check("order_readable", got.ok, "exception/%s" % oname,
                             {"exc": repr(got.exc)}):
                continue
            gorder = [int(x) for x in got.value]
            if tdim.get("prune") is True:
                vis = set(e for e in gorder if e >= 0)
                hidden = set(range(len(ids))) - vis | hidden
            od = tdim.get("order") or {}
            expl = od.get("element_ids") if od.get("type") == "explicit" else None
            explicit |= bool(expl)
            danchor = _derived_anchors(o, d) if expl is not None else None
            exp = spec_order.display_order(ids, subs, expl, hidden, danchor)
            # subtotals pruned as a group (opposing dimension empty and pruned): C09
            if not any(e < 0 for e in gorder) and any(e < 0 for e in exp):
                exp = [e for e in exp if e >= 0]
            mon = "slice_rows" if oname == "row_order" else "slice_cols"
            res.check(mon, gorder == exp, "slice/%s%s" % (oname, "/derived" if danchor else ""),
                      {"got": gorder, "exp": exp, "transforms": tdim,
                       "view": [s["raw"] for s in subs]})
            anchored |= any(isinstance(s["anchor"], int) for s in subs)
            gb = read(part, oname, ORDER_FORMAT.BOGUS_IDS)
            if gb.ok and gorder == exp:
                expb = [e if e >= 0 else "ins_%s" % subs[e + len(subs)]["id"] for e in exp]
                gl = [x if isinstance(x, str) and x.startswith("ins_") else int(x)
                      for x in gb.value.tolist()]
                keyb = "slice/bogus/%s" % oname
                has_idless = any(not s["has_id"] for s in subs)
                both = "insertions" in tdim and getattr(o.facets[d][1], "view_insertions", None)
                if gl != expb and has_idless:
                    keyb += "/idless_%s" % ("analysis" if "insertions" in tdim else "view")
                if gl != expb and both:
                    keyb += "/view_and_analysis"
                res.check("bogus_order", gl == expb, keyb,
                          {"got": snap(gl), "exp": expb, "insertions": [s["raw"] for s in subs]})
            elif not gb.ok:
                both = "insertions" in tdim and getattr(o.facets[d][1], "view_insertions", None)
                res.check("bogus_order", False, "slice/bogus/%s/exception%s" % (
                    oname, "/view_and_analysis" if both else ""), {"exc": repr(gb.exc)})
    res.nontrivial = anchored and explicit
    return res


def _hidden(tdim, ids):
    out = set()
    for k, v in ((tdim or {}).get("elements") or {}).items():
        if isinstance(v, dict) and v.get("hide") is True:
            for p, eid in enumerate(ids):
                if str(eid) == str(k):
                    out.add(p)
    return out


def _derive_items(g, v):
    """Mark some MR items as zz9-derived insertions with anchors."""
    n = len(v.items)
    if n < 2:
        return False
    k = g.r.randint(1, max(1, n // 2))
    base = [it for it in v.items]
    for it in g.r.sample(base, k):
        others = [x["alias"] for x in v.items if x is not it and not x.get("derived")]
        it["derived"] = True
        choice = g.pick(["top", "bottom", "after", "before", "stale"])
        if choice in ("top", "bottom") or not others:
            it["anchor"] = choice if choice in ("top", "bottom") else "bottom"
        elif choice == "stale":
            it["anchor"] = {"position": "after", "alias": "no_such_alias"}
        else:
            it["anchor"] = {"position": choice, "alias": g.pick(others)}
    if all(x.get("derived") for x in v.items):
        v.items[0]["derived"] = False
        v.items[0]["anchor"] = None
    # an anchor must point at a non-derived item
    nond = [x["alias"] for x in v.items if not x.get("derived")]
    for it in v.items:
        a = it.get("anchor")
        if it.get("derived") and isinstance(a, dict) and a["alias"] not in nond + [
                "no_such_alias"]:
            a["alias"] = nond[0]
    return True


def _derived_anchors(o, d):
    role, var = o.facets[d]
    if role != "mr":
        return None
    out = {}
    for p, it in enumerate(var.items):
        if it.get("derived"):
            a = it.get("anchor")
            if isinstance(a, dict):
                out[p] = (a.get("alias"), "before" if a.get("position") == "before" else "after")
            else:
                out[p] = a
    return out or None
