"""C08 - sort-by-value ordering is monotone in the requested measure (M against the public measure)."""

import math

import numpy as np

from .. import cases, gen, sim, expect, spec_order, transforms as T
from ..harness import CaseResult
from ..probe import read, snap

ID = "C08"
TITLE = "Sort-by-value ordering is monotone in the requested measure"
TEMPLATES = ["cat|cat", "cat|cat", "cat|mr", "mr|cat", "mr|mr", "cat_date|cat", "cat|cat_date",
             "cai|cac", "cac|cai", "cat", "mr", "cat_date", "numarr|cat", "numarr",
             "cat|cat|cat", "mr|cat|cat", "cat|binned", "text|cat", "mr", "mr", "numarr"]

PUBLIC_2D = {
    "col_base_unweighted": "column_unweighted_bases", "col_base_weighted": "column_weighted_bases",
    "col_index": "column_index", "col_percent": "column_percentages",
    "col_percent_moe": "column_proportions_moe", "col_share_sum": "column_share_sum",
    "col_std_dev": "column_std_dev", "col_std_err": "column_std_err", "mean": "means",
    "population": "population_counts", "population_moe": "population_counts_moe",
    "p_value": "pvals", "row_base_unweighted": "row_unweighted_bases",
    "row_base_weighted": "row_weighted_bases", "row_percent": "row_percentages",
    "row_percent_moe": "row_proportions_moe", "row_share_sum": "row_share_sum",
    "row_std_dev": "row_std_dev", "row_std_err": "row_std_err", "stddev": "stddev",
    "sum": "sums", "table_percent": "table_percentages",
    "table_percent_moe": "table_proportions_moe", "table_std_dev": "table_std_dev",
    "table_std_err": "table_std_err", "table_base_unweighted": "table_unweighted_bases",
    "table_base_weighted": "table_weighted_bases", "total_share_sum": "total_share_sum",
    "count_unweighted": "unweighted_counts", "valid_count_unweighted": "unweighted_counts",
    "count_weighted": "counts", "valid_count_weighted": "counts", "z_score": "zscores",
}
PUBLIC_MARGINAL = {
    "unweighted_base": "rows_base", "weighted_base": "rows_margin",
    "table_proportion": "rows_margin_proportion", "scale_mean": "rows_scale_mean",
    "scale_mean_stddev": "rows_scale_mean_stddev", "scale_mean_stderr": "rows_scale_mean_stderr",
    "scale_median": "rows_scale_median",
}
PUBLIC_STRAND = {
    "base_unweighted": "unweighted_bases", "base_weighted": "weighted_bases",
    "count_unweighted": "unweighted_counts", "count_weighted": "counts", "mean": "means",
    "percent": "table_percentages", "percent_moe": "table_proportion_moes",
    "percent_stddev": "table_proportion_stddevs", "percent_stderr": "table_proportion_stderrs",
    "population": "population_counts", "population_moe": "population_counts_moe",
    "share_sum": "share_sum", "sum": "sums",
}
RULE = (
    "W1 synthetic surveys (%d templates, ties / NaN cells / zero bases frequent) x every "
    "sortable keyword (%d matrix measures, %d marginals, label, %d strand measures) "
    "round-robin x both directions x fixed top/bottom lists x hides / prune x subtotals x rows "
    "and columns. The order is related to the *public* measure the keyword names, read on an "
    "unsorted shadow partition. Unresolvable keys (stale element / insertion id, measure not in "
    "the response, undefined marginal, unknown keyword) must give the anchored payload order "
    "of C07. Non-trivial: key resolvable, >= 3 visible body elements with >= 2 distinct finite "
    "values." % (len(TEMPLATES), len(PUBLIC_2D), len(PUBLIC_MARGINAL), len(PUBLIC_STRAND)))
ASSUMPTIONS = [
    "a key counts as resolvable when the referenced opposing element / insertion exists and "
    "the public measure can be read on the shadow partition (otherwise the fallback is "
    "demanded)",
    "population > 0 and a finite positive filter fraction (with a NaN fraction every public "
    "value is NaN and the order of the surrogate is unobservable)",
    "keywords the library documents as not sortable (median, pairwise_t_test, smoothed_*) are "
    "outside the property's quantifier",
]
TECHNIQUE = "relational runtime monitor: reported order vs the public measure named by the sort key"
DESIGN_REF = "DESIGN.md 4 C08"
REQUIRED_REACH = ["monotone", "nan_last", "fixed_groups", "subtotal_group", "fallback",
                  "same_set", "class:rows", "class:cols", "class:strand",
                  "class:kind=opposing_element", "class:kind=opposing_insertion",
                  "class:opposing_key_respelled",
                  "class:kind=marginal", "class:kind=label", "class:kind=univariate_measure",
                  "class:ascending", "class:descending", "class:unresolvable",
                  "class:infinite_sort_value"]
BATCH = 25
UNIT_TIMEOUT_S = 40
KW2D = sorted(PUBLIC_2D)
KWM = sorted(PUBLIC_MARGINAL)
KWS = sorted(PUBLIC_STRAND)


def units(tier, seed):
    n = 2400 if tier == "quick" else 40000
    return [{"i": i, "seed": seed} for i in range(n)]


def make_case(unit):
    i = unit["i"]
    g = gen.G("C08/%s/%s" % (unit["seed"], i))
    template = TEMPLATES[i % len(TEMPLATES)]
    j = i // len(TEMPLATES)
    N = g.pick([6, 10, 14, 20, 30, 40])
    nparts = len(template.split("|"))
    sizes = [g.r.randint(3, 6) for _ in range(nparts)]
    facets = cases.random_facets(g, template, N, sizes=sizes, p_zero=0.2, numeric="some")
    cases.entangle_some(g, facets)
    if template == "mr" and g.chance(0.7):
        # items with very different bases and non-degenerate shares: the orders by stddev, by
        # stderr, by share and by base then all differ from one another
        N = g.pick([20, 30, 45, 60])
        v = g.mr(N, n_items=sizes[0])
        for s_ in range(v.state.shape[1]):
            pm = g.pick([0.0, 0.3, 0.6, 0.85])
            ps = g.r.uniform(0.12, 0.88)
            for i_ in range(N):
                v.state[i_, s_] = sim.MIS if g.r.random() < pm else (
                    sim.SEL if g.r.random() < ps else sim.OTH)
        facets = [("mr", v)]
    tr = {}
    if g.chance(0.7):
        cases.attach_insertions(g, facets, tr, hide_some=False, n=g.r.randint(2, 4))
    wmode = g.pick(["none", "frac", "zeros"])
    if gen.stratum(ID, i, "wscale", 5) == 0:
        # weights far below 1e-8 / of mixed magnitude: sort values (weighted counts, bases,
        # sums) that differ only far below any fixed number of decimals must still be told
        # apart - the order has to follow the values shown, whatever their scale
        wmode = ["tiny", "scales"][gen.stratum(ID, i, "wscale2", 2)]
    w = g.weights(N, wmode)
    forced = None
    if "numarr" in template:
        spec = sim.CubeSpec(facets, w, ("mean", "sum"))
    else:
        mset = g.pick([(), ("mean", "stddev"), ("sum",), ("mean", "sum", "stddev")])
        numvar = g.num(N) if mset else None
        if "sum" in mset and template == "cat|cat" and g.chance(0.6):
            w, forced = _cancelling_sums(g, facets, numvar, w)
        spec = sim.CubeSpec(facets, w, mset, numvar)
    o = sim.Oracle(spec)
    nd = o.ndim
    strand = nd == 1
    axis = "rows" if strand else ["rows", "rows", "cols"][j % 3]
    if forced:
        axis = forced["axis"]
    key = "rows_dimension" if axis == "rows" else "columns_dimension"
    d = 0 if strand else (nd - 2 if axis == "rows" else nd - 1)
    od = None if strand else (nd - 1 if axis == "rows" else nd - 2)
    okey = "columns_dimension" if axis == "rows" else "rows_dimension"
    ids, _ = T.transform_ids(o, d)
    order = {}
    if strand:
        kind = ["univariate_measure", "univariate_measure", "label"][j % 3]
        order["type"] = kind
        if kind == "univariate_measure":
            order["measure"] = KWS[(j // 3) % len(KWS)] if g.chance(0.93) else "no_such"
    else:
        kinds = ["opposing_element", "opposing_element", "opposing_insertion", "label"] + (
            ["marginal"] if axis == "rows" else [])
        kind = kinds[(j // 3) % len(kinds)]
        order["type"] = kind
        oids, _ = T.transform_ids(o, od)
        osubs = expect.resolved_subtotals(o, od, tr.get(okey))
        if kind in ("opposing_element", "opposing_insertion"):
            kw = KW2D[(j // 15) % len(KW2D)]
            if axis == "cols":
                kw = "row_" + kw[4:] if kw.startswith("col_") else (
                    "col_" + kw[4:] if kw.startswith("row_") else kw)
                if kw not in PUBLIC_2D:
                    kw = "count_weighted"
            order["measure"] = kw if g.chance(0.95) else "nonsense_keyword"
            if kind == "opposing_element":
                order["element_id"] = g.pick(oids) if (oids and g.chance(0.9)) else 96
            else:
                if osubs and g.chance(0.85):
                    order["insertion_id"] = g.pick(osubs)["id"]
                else:
                    # no such insertion: 999, or a number that happens to be the id of an
                    # opposing *category* (ids live in different namespaces)
                    sub_ids = set(s_["id"] for s_ in osubs)
                    cands = [x for x in oids if isinstance(x, int) and x not in sub_ids]
                    order["insertion_id"] = g.pick(cands) if cands and g.chance(0.6) else 999
        elif kind == "marginal":
            order["marginal"] = KWM[(j // 15) % len(KWM)] if g.chance(0.95) else "bogus"
    if forced:
        # sort by the share of sum whose denominator was made to cancel: +/-inf sort values
        order = {"type": "opposing_element", "measure": forced["measure"],
                 "element_id": forced["element_id"]}
    if g.chance(0.5):
        order["direction"] = g.pick(["ascending", "descending"])
    if ids and g.chance(0.5):
        fixed = {}
        top = g.r.sample(list(ids), g.r.randint(0, min(2, len(ids))))
        bottom = g.r.sample(list(ids), g.r.randint(0, min(2, len(ids))))
        if top and g.chance(0.25):
            top = top + [top[0]]
        if g.chance(0.2):
            top = top + [96]
        if top:
            fixed["top"] = top
        if bottom:
            fixed["bottom"] = bottom
        if fixed:
            order["fixed"] = fixed
    opposing_alias = None
    if order.get("type") == "opposing_element" and od is not None and \
            o.facets[od][0] in ("mr", "ca_items", "numarr") and \
            order.get("element_id") in oids and gen.stratum(ID, i, "spell", 2):
        # the key spelled as a sub-variable id or an element id (int / digit string) instead
        # of the alias: the spellings C19 shows to be equivalent; the column meant is the same
        from .c19 import _spellings

        orole, ovar = o.facets[od]
        sp = _spellings(orole, ovar)[oids.index(order["element_id"])]
        aliases = set(str(x) for x in oids)
        cands = [sp[k_] for k_ in ("subvar_id", "elem_id_int", "elem_id_str")
                 if k_ in sp and str(sp[k_]) not in aliases]
        if cands:
            opposing_alias = order["element_id"]
            order["element_id"] = cands[gen.stratum(ID, i, "spell2", len(cands))]
    dd = tr.setdefault(key, {})
    dd["order"] = order
    if g.chance(0.35):
        els = T.random_hides(g, ids, p=1.0, renames=False)
        if els:
            dd["elements"] = els
    if g.chance(0.25):
        dd["prune"] = True
    return {"template": template, "spec": sim.spec_to_dict(spec), "transforms": tr,
            "axis": axis, "population": g.pick([1000, 35000]), "mask_size": 0,
            "opposing_alias": opposing_alias}


def _cancelling_sums(g, facets, numvar, w):
    """Signed values that cancel within one row (or column): its total is exactly zero while
    its cells are not, so its shares of the sum are +/-inf - legitimate, orderable sort values
    (only NaN goes last)."""
    (_, rv), (_, cv) = facets[0], facets[1]
    a, b = (rv, cv) if g.chance(0.5) else (cv, rv)
    for k in g.r.sample(range(len(a.cats)), len(a.cats)):
        if a.cats[k].get("missing"):
            continue
        members = [i for i in range(a.n) if a.ans[i] == k and not b.cats[b.ans[i]].get("missing")]
        by_opp = {}
        for i in members:
            by_opp.setdefault(int(b.ans[i]), []).append(i)
        if len(by_opp) < 2:
            continue
        (c1, m1), (c2, m2) = sorted(by_opp.items())[:2]
        v = g.pick([2.5, 5.0, 10.0])
        for i in members:
            numvar.x[i] = 0.0
        numvar.x[m1[0]], numvar.x[m2[0]] = v, -v
        if w is not None:
            w = np.array(w, dtype=float)
            w[m1[0]] = w[m2[0]] = 1.0
        forced = {"axis": "rows" if a is rv else "cols",
                  "measure": "row_share_sum" if a is rv else "col_share_sum",
                  "element_id": b.cats[g.pick([c1, c2])]["id"]}
        return w, forced
    return w, None


# --------------------------------------------------------------------------------- checking


def _as_float(x):
    try:
        return float(x)
    except (TypeError, ValueError):
        return None


def _is_nan(x):
    try:
        return bool(np.isnan(x))
    except TypeError:
        return False


def _hidden(tdim, ids):
    out = set()
    for k, v in ((tdim or {}).get("elements") or {}).items():
        if isinstance(v, dict) and v.get("hide") is True:
            for p, eid in enumerate(ids):
                if str(eid) == str(k):
                    out.add(p)
    return out


def check_case(case):
    res = CaseResult()
    tr = case.get("transforms") or {}
    trB = T.strip_display(tr)
    caseB = dict(case)
    caseB["transforms"] = trB
    LT, LB = cases.realize(case), cases.realize(caseB)
    o = LT.oracle
    nd = o.ndim
    strand = nd == 1
    axis = case["axis"]
    key = "rows_dimension" if axis == "rows" else "columns_dimension"
    oname = "row_order" if axis == "rows" else "column_order"
    tdim = tr.get(key) or {}
    order = tdim.get("order") or {}
    res.descriptor = cases.describe(case)
    res.classes.append("strand" if strand else axis)
    res.classes.append("kind=%s" % order.get("type"))
    descending = order.get("direction", "descending") != "ascending"
    res.classes.append("descending" if descending else "ascending")
    pT, pB = read(LT.cube, "partitions"), read(LB.cube, "partitions")
    if not res.check("partitions_readable", pT.ok and pB.ok, "exception/partitions",
                     {"T": repr(pT.exc), "B": repr(pB.exc)}):
        return res
    good = False
    for t, (partT, partB) in enumerate(zip(pT.value, pB.value)):
        good |= _one(res, case, LT, t, partT, partB, strand, axis, key, oname, tdim, order,
                     descending)
    res.nontrivial = good
    return res


def _values(res, o, strand, axis, order, partB, d, od, trB, okey, opposing_alias=None):
    """(element values by base idx, subtotal values by definition idx) or None if unresolvable."""
    kind = order.get("type")
    subsB = expect.resolved_subtotals(o, d, trB.get(
        "rows_dimension" if axis == "rows" else "columns_dimension"))
    ro = [int(x) for x in read(partB, "row_order" if axis == "rows" else "column_order").value]
    pos_elem = {e: p for p, e in enumerate(ro) if e >= 0}
    pos_sub = {e + len(subsB): p for p, e in enumerate(ro) if e < 0}
    n = o.n_valid(d)

    def pick(vec):
        ev = [vec[pos_elem[e]] if e in pos_elem else float("nan") for e in range(n)]
        sv = [vec[pos_sub[k]] if k in pos_sub else float("nan") for k in range(len(subsB))]
        return ev, sv

    if kind == "label":
        g = read(partB, "row_labels" if axis == "rows" else "column_labels")
        return pick(list(g.value)) if g.ok else None
    if kind == "univariate_measure":
        attr = PUBLIC_STRAND.get(order.get("measure"))
        if attr is None:
            return None
        g = read(partB, attr)
        if not g.ok:
            return None
        return pick(np.asarray(g.value, dtype=float))
    if kind == "marginal":
        attr = PUBLIC_MARGINAL.get(order.get("marginal"))
        if attr is None:
            return None
        g = read(partB, attr)
        if not g.ok or g.value is None or np.asarray(g.value).ndim != 1:
            return None
        return pick(np.asarray(g.value, dtype=float))
    # opposing element / insertion
    attr = PUBLIC_2D.get(order.get("measure"))
    if attr is None:
        return None
    g = read(partB, attr)
    if not g.ok:
        if not isinstance(g.exc, ValueError):
            # the public measure itself is not defined for this pairing (e.g. column index
            # across a numeric array): outside the quantifier, recorded only
            res.observations["public measure %s raises %s" % (attr, g.exc_name)] += 1
            return "skip"
        return None
    m = np.asarray(g.value, dtype=float)
    oo = [int(x) for x in read(partB, "column_order" if axis == "rows" else "row_order").value]
    oids, _ = T.transform_ids(o, od)
    osubs = expect.resolved_subtotals(o, od, trB.get(okey))
    if kind == "opposing_element":
        eid = order.get("element_id")
        if opposing_alias is not None:
            res.classes.append("opposing_key_respelled")
            eid = opposing_alias
        if eid not in oids:
            return None
        e = oids.index(eid)
        if e not in oo:
            return None
        p = oo.index(e)
    else:
        if o.typestr(od) != "CAT":
            return "skip"  # derived-column sorting on array dimensions: not modelled
        sid = order.get("insertion_id")
        ks = [k for k, s in enumerate(osubs) if s["id"] == sid]
        if not ks:
            return None
        if len(ks) > 1:
            # two insertions answer to this id (an explicit id equal to the number the
            # library gives an id-less one): which of them is meant is not defined
            res.skipped["insertion_id_ambiguous"] += 1
            return "skip"
        k = ks[0]
        if (k - len(osubs)) not in oo:
            return None
        p = oo.index(k - len(osubs))
    vec = m[:, p] if axis == "rows" else m[p, :]
    return pick(vec)


def _one(res, case, L, t, partT, partB, strand, axis, key, oname, tdim, order, descending):
    o = L.oracle
    nd = o.ndim
    d = 0 if strand else (nd - 2 if axis == "rows" else nd - 1)
    od = None if strand else (nd - 1 if axis == "rows" else nd - 2)
    okey = "columns_dimension" if axis == "rows" else "rows_dimension"
    tr = case.get("transforms") or {}
    trB = T.strip_display(tr)
    ids, _ = T.transform_ids(o, d)
    subs = expect.resolved_subtotals(o, d, tdim)
    got = read(partT, oname)
    vals = _values(res, o, strand, axis, order, partB, d, od, trB, okey,
                   case.get("opposing_alias"))
    if vals != "skip" and not res.check("order_readable", got.ok, "exception/%s" % oname,
                                        {"exc": repr(got.exc), "order": order}):
        return False
    gorder = [int(x) for x in got.value] if got.ok else []
    if vals == "skip":
        res.skipped["not_modelled_or_undefined_measure"] += 1
        return False
    # visible set: C09's rule through the order of a plain (unsorted) twin with the same hides
    hidden = _hidden(tdim, ids)
    if tdim.get("prune") is True:
        vis = set(e for e in gorder if e >= 0)
        hidden = (set(range(len(ids))) - vis) | hidden
    payload = spec_order.display_order(ids, subs, None, hidden)
    if not any(e < 0 for e in gorder):
        payload_cmp = [e for e in payload if e >= 0] if any(e < 0 for e in payload) and \
            _subtotals_pruned(case, okey) else payload
    else:
        payload_cmp = payload
    if vals is None:
        res.classes.append("unresolvable")
        res.check("fallback", gorder == payload_cmp, "fallback/%s" % order.get("type"),
                  {"got": gorder, "exp_payload_order": payload_cmp, "order": order})
        return False
    ev, sv = vals
    if order.get("type") == "opposing_insertion" and order.get("measure") == "population":
        # population estimates of a *difference* are NaN in public, the sort uses the hidden
        # proportion (known finding KF-C08-population-difference-subtotals): own key
        osubs_ = expect.resolved_subtotals(o, od, trB.get(okey))
        if any(s_["id"] == order.get("insertion_id") and s_["subtrahends"] for s_ in osubs_):
            order = dict(order, measure="population@difference_insertion")
    res.check("same_set", sorted(gorder) == sorted(payload_cmp) or (
        set(gorder) == set(payload_cmp) and len(gorder) == len(payload_cmp)),
        "same_set/%s" % oname, {"got": gorder, "exp_set": sorted(payload_cmp)})
    # ---- structure ------------------------------------------------------------------------
    subs_in = [e for e in gorder if e < 0]
    base_in = [e for e in gorder if e >= 0]
    if subs_in:
        grp = gorder[:len(subs_in)] if descending else gorder[len(gorder) - len(subs_in):]
        res.check("subtotal_group", sorted(grp) == sorted(subs_in),
                  "structure/subtotals_not_%s" % ("first" if descending else "last"),
                  {"order": gorder, "descending": descending})
        _monotone(res, [sv[e + len(subs)] for e in subs_in if True], subs_in, descending,
                  "subtotal_group", "subtotal_group", payload_positions=None, order=order)
    fixed = order.get("fixed") or {}
    idpos = {eid: p for p, eid in enumerate(ids)}

    def fixed_list(lst):
        out = []
        for x in lst or []:
            if x in idpos and idpos[x] not in out:
                out.append(idpos[x])
        return out

    top = [e for e in fixed_list(fixed.get("top")) if e not in hidden]
    bottom = [e for e in fixed_list(fixed.get("bottom")) if e not in hidden and e not in top]
    res.check("fixed_groups", base_in[:len(top)] == top, "structure/fixed_top",
              {"order": gorder, "top": top})
    if bottom:
        res.check("fixed_groups", base_in[len(base_in) - len(bottom):] == bottom,
                  "structure/fixed_bottom", {"order": gorder, "bottom": bottom})
    body = [e for e in base_in if e not in top and e not in bottom]
    bvals = [ev[e] for e in body]
    if any(isinstance(v, float) and math.isinf(v) for v in map(_as_float, bvals)):
        res.classes.append("infinite_sort_value")
    _monotone(res, bvals, body, descending, "monotone", "body", payload_positions=body,
              order=order)
    finite = [v for v in bvals if not _is_nan(v)]
    return o.N >= 5 and len(body) >= 3 and len(set(map(str, finite))) >= 2


def _subtotals_pruned(case, okey):
    return ((case.get("transforms") or {}).get(okey) or {}).get("prune") is True


def _monotone(res, vals, idxs, descending, monitor, what, payload_positions, order):
    """Non-NaN values monotone (non-strict), NaN-valued ones last in payload order."""
    kw = order.get("measure") or order.get("marginal") or order.get("type")
    nan_flags = [_is_nan(v) for v in vals]
    first_nan = nan_flags.index(True) if True in nan_flags else len(vals)
    res.check("nan_last", all(nan_flags[first_nan:]), "%s/nan_not_last/%s" % (what, kw),
              {"values": snap(vals), "idxs": idxs, "order": order})
    nan_idxs = [i for i, f in zip(idxs, nan_flags) if f]
    res.check("nan_last", nan_idxs == sorted(nan_idxs),
              "%s/nan_not_in_payload_order/%s" % (what, kw),
              {"idxs": idxs, "nan_idxs": nan_idxs})
    fin = [v for v, f in zip(vals, nan_flags) if not f]
    ok = True
    for a, b in zip(fin, fin[1:]):
        if descending and a < b:
            ok = False
        if not descending and a > b:
            ok = False
    res.check(monitor, ok, "%s/not_monotone/%s" % (what, order.get("measure") or order.get(
        "marginal") or order.get("type")), {"values": snap(vals), "idxs": idxs,
                                             "descending": descending, "order": order})
