"""C09 - visibility: hidden iff asked, pruned iff empty by unweighted counts (R)."""

import numpy as np

from .. import cases, gen, sim, expect, transforms as T
from ..harness import CaseResult
from ..probe import read

ID = "C09"
TITLE = "Visibility: hidden iff asked, pruned iff empty by unweighted counts"
TEMPLATES = [
    "cat|cat", "cat|mr", "mr|cat", "mr|mr", "cai|cac", "cac|cai", "numarr|cat", "numarr|mr",
    "cat|cat_date", "mr|cat|cat", "cat|mr|mr", "cat|cat|mr", "cat|mr|cat", "cai|mr|cac",
    "cac|mr|cai", "mr|cai|cac", "cat", "mr", "numarr", "cat_date", "text|cat", "cat|binned",
    "cai|cac|mr", "cat|cai|cac", "cat", "mr", "cat_date",
    # multiple response with derived (server-computed insertion) items: ordinary elements as
    # far as hiding and pruning go, handled apart by the explicit-order collator
    "mrd", "cat|mrd", "mrd|cat",
]
FLAGS = [(hr, hc, pr, pc) for hr in (0, 1) for hc in (0, 1) for pr in (0, 1) for pc in (0, 1)]
RULE = (
    "W1 synthetic surveys over %d templates x all 16 combinations of {hide rows, hide "
    "columns, prune rows, prune columns} x weighting, built so that weighted and unweighted "
    "emptiness differ (zero weights on the only respondents of a vector), 'selected' and "
    "'answered' differ (items answered by everybody and selected by nobody) and whole vectors "
    "are ineligible (members missing on the opposing variable); with insertions and random "
    "orders. Expected visibility from unweighted respondent masks. Non-trivial: N >= 5 and at "
    "least one element or subtotal removed and at least one kept." % len(TEMPLATES))
ASSUMPTIONS = [
    "the three-valued reading of 'empty' (DESIGN.md 4 C09): must stay = positive unweighted "
    "count in some cell; must go = zero unweighted base over the opposing dimension; an MR "
    "item answered but never selected stays, except against another MR dimension; other "
    "in-between vectors (zero counts, positive base) are expected to stay like the base rule "
    "says and are counted separately",
]
TECHNIQUE = "reference-model runtime monitor (visibility from unweighted respondent masks)"
DESIGN_REF = "DESIGN.md 4 C09"
REQUIRED_REACH = ["visible_rows", "visible_cols", "subtotal_visibility", "shape_and_labels",
                  "collator:SortByValueCollator", "class:sorted_by_value_with_prune",
                  "strand_visible", "class:pruned_element", "class:pruned_and_smoothed",
                  "class:derived_item_removed_under_explicit_order", "class:weighted_only_empty",
                  "class:answered_never_selected", "class:subtotals_pruned",
                  "class:pair=MRxMR", "class:pair=CATxMR", "class:pair=MRxCAT"]
BATCH = 40


def units(tier, seed):
    n = 864 if tier == "quick" else 30000
    return [{"i": i, "seed": seed} for i in range(n)]


def make_case(unit):
    i = unit["i"]
    g = gen.G("C09/%s/%s" % (unit["seed"], i))
    template = TEMPLATES[i % len(TEMPLATES)]
    j = i // len(TEMPLATES)
    hr, hc, pr, pc = FLAGS[j % 16]
    wmode = ["none", "zeros", "zeros", "frac"][(j // 16) % 4]
    N = g.pick([5, 8, 12, 20, 30, 45])
    nparts = len(template.split("|"))
    sizes = [g.r.randint(2, 5) for _ in range(nparts)]
    facets = cases.random_facets(g, template.replace("mrd", "mr"), N, sizes=sizes, p_zero=0.3)
    if "mrd" in template:
        from .c07 import _derive_items

        for role, v in facets:
            if role == "mr":
                _derive_items(g, v)
    for _ in range(2):
        cases.entangle_some(g, facets)
    # MR items answered by everybody but selected by nobody / missing for everybody
    for role, v in facets:
        if role == "mr" and g.chance(0.6):
            s = g.r.randrange(v.state.shape[1])
            v.state[:, s] = g.pick([sim.OTH, sim.OTH, sim.MIS])
    w = g.weights(N, wmode)
    if w is not None and g.chance(0.5):
        # zero weight on every member of one element: weighted empty, unweighted not
        role, v = facets[-1]
        if role == "cat":
            k = g.r.randrange(len(v.cats))
            w = np.where(v.ans == k, 0.0, w)
        elif role == "mr":
            w = np.where(v.state[:, 0] == sim.SEL, 0.0, w)
    tr = {}
    if g.chance(0.5):
        cases.attach_insertions(g, facets, tr)
    spec = sim.CubeSpec(facets, w, ("mean",) if "numarr" in template else ())
    o = sim.Oracle(spec)
    nd = o.ndim
    dims = [("rows_dimension", 0, hr, pr)] if nd == 1 else [
        ("rows_dimension", nd - 2, hr, pr), ("columns_dimension", nd - 1, hc, pc)]
    for key, d, hide, prune in dims:
        ids, _ = T.transform_ids(o, d)
        dd = tr.setdefault(key, {})
        if hide and ids:
            dd["elements"] = T.random_hides(g, ids, p=1.0, renames=False)
        if prune:
            dd["prune"] = True
        elif g.chance(0.2):
            dd["prune"] = g.pick([False, None, "true", 1])  # only `True` enables pruning
        if g.chance(0.55) and ids:
            # any ordering, incl. sort-by-value on measures that are NaN for vectors whose
            # respondents all carry zero weight or sit in categories without a numeric value:
            # an undefined sort value is no reason to prune
            od_ = None if nd == 1 else (nd - 1 if d == nd - 2 else nd - 2)
            oids = T.transform_ids(o, od_)[0] if od_ is not None else []
            measures = (["percent", "count_weighted", "percent_moe", "base_weighted"]
                        if nd == 1 else
                        ["row_percent", "col_percent", "table_percent", "count_weighted",
                         "row_percent_moe", "col_std_err", "z_score"])
            kinds = ["explicit", "label", "payload_order"] + (["explicit"] * 4 if "mrd" in
                                                               template else []) + (
                ["univariate_measure"] * 3 if nd == 1 else
                ["opposing_element"] * 3 + (["marginal"] * 2 if key == "rows_dimension" else []))
            order = T.random_order(g, ids, [], oids, [], "rows" if key == "rows_dimension"
                                   else "cols", nd == 1, measures, kinds=kinds)
            if order:
                if order.get("type") == "marginal":
                    order["marginal"] = g.pick(["scale_mean", "scale_median", "scale_mean_stddev",
                                                "weighted_base"])
                dd["order"] = order
                res_kind = order.get("type")
        fv = o.facets[d][1]
        if getattr(fv, "kind", None) == "cat_date" and gen.stratum("C09", i, "smooth", 2):
            # a smoother on the date dimension changes values, never which periods are shown
            dd["smoother"] = {"function": "one_sided_moving_avg",
                              "window": 2 + gen.stratum("C09", i, "window", 2)}
        if not dd:
            del tr[key]
    return {"template": template, "spec": sim.spec_to_dict(spec), "transforms": tr,
            "flags": [hr, hc, pr, pc]}


# --------------------------------------------------------------------------------- checking


def _hidden_ids(tdim, ids):
    out = set()
    for k, v in ((tdim or {}).get("elements") or {}).items():
        if isinstance(v, dict) and v.get("hide") is True:
            for p, eid in enumerate(ids):
                if str(eid) == str(k):
                    out.add(p)
    return out


def _prune_base(o, fixed, d, od, e, res):
    """Unweighted number of respondents eligible for base vector `e` of dimension d."""
    role = o.facets[d][0]
    orole = o.facets[od][0] if od is not None else None
    tot = 0.0
    cnt = 0.0
    n_opp = o.n_valid(od) if od is not None else 1
    for c in range(n_opp):
        sel = dict(fixed)
        sel[d] = e
        free = set()
        if od is not None:
            sel[od] = c
            free.add(od)
        if role == "mr" and orole != "mr":
            # selected or not selected: the item was answered
            free.add(d)
        tot += o.total(sel, tuple(free), False)
        s2 = dict(fixed)
        s2[d] = e
        if od is not None:
            s2[od] = c
        cnt += o.total(s2, (), False)
    return tot, cnt


def check_case(case):
    res = CaseResult()
    L = cases.realize(case)
    o = L.oracle
    nd = o.ndim
    tr = case.get("transforms") or {}
    res.descriptor = cases.describe(case, {"flags": case["flags"]})
    if nd >= 2:
        res.classes.append("pair=%sx%s" % (o.typestr(nd - 2), o.typestr(nd - 1)))
    parts = read(L.cube, "partitions")
    if not res.check("partitions_readable", parts.ok, "exception/partitions",
                     {"exc": repr(parts.exc)}):
        return res
    removed = kept = False
    for t, part in enumerate(parts.value):
        fixed = {0: t} if nd == 3 else {}
        dims = [(0, None, "rows_dimension", "row_order")] if nd == 1 else [
            (nd - 2, nd - 1, "rows_dimension", "row_order"),
            (nd - 1, nd - 2, "columns_dimension", "column_order")]
        all_empty = {}
        expected = {}
        for d, od, key, oname in dims:
            tdim = tr.get(key) or {}
            ids, _ = T.transform_ids(o, d)
            hidden = _hidden_ids(tdim, ids)
            prune = tdim.get("prune") is True
            empties = set()
            for e in range(o.n_valid(d)):
                base, cnt = _prune_base(o, fixed, d, od, e, res)
                if base == 0:
                    empties.add(e)
                elif cnt == 0:
                    res.classes.append("zero_count_positive_base")
                    if o.facets[d][0] == "mr":
                        res.classes.append("answered_never_selected")
                if base > 0 and L.spec.weight is not None:
                    # weighted-empty but unweighted non-empty must not be pruned
                    sel = dict(fixed)
                    sel[d] = e
                    wtot = 0.0
                    for c in range(o.n_valid(od) if od is not None else 1):
                        s2 = dict(sel)
                        if od is not None:
                            s2[od] = c
                        wtot += o.total(s2, (od,) if od is not None else (), True)
                    if wtot == 0:
                        res.classes.append("weighted_only_empty")
            all_empty[d] = len(empties) == o.n_valid(d)
            vis = set(range(o.n_valid(d))) - hidden - (empties if prune else set())
            if o.facets[d][0] == "mr" and (tdim.get("order") or {}).get("type") == "explicit":
                gone = (hidden | (empties if prune else set()))
                if any(o.facets[d][1].items[e].get("derived") for e in gone
                       if e < len(o.facets[d][1].items)):
                    res.classes.append("derived_item_removed_under_explicit_order")
            if prune and empties - hidden:
                res.classes.append("pruned_element")
                if tdim.get("smoother"):
                    res.classes.append("pruned_and_smoothed")
            expected[d] = vis
        for d, od, key, oname in dims:
            tdim = tr.get(key) or {}
            if tdim.get("prune") is True and (tdim.get("order") or {}).get("type") in (
                    "opposing_element", "marginal", "univariate_measure", "opposing_insertion"):
                res.classes.append("sorted_by_value_with_prune")
            got = read(part, oname)
            if not res.check("order_readable", got.ok, "exception/%s" % oname,
                             {"exc": repr(got.exc)}):
                continue
            order = [int(x) for x in got.value]
            gvis = set(e for e in order if e >= 0)
            mon = "strand_visible" if nd == 1 else (
                "visible_rows" if oname == "row_order" else "visible_cols")
            res.check(mon, gvis == expected[d], "visible/%s" % oname,
                      {"got": sorted(gvis), "exp": sorted(expected[d]),
                       "transforms": tdim.get("elements"), "prune": tdim.get("prune")})
            if gvis != set(range(o.n_valid(d))):
                removed = True
            if gvis:
                kept = True
            # subtotals: never pruned individually
            subs = expect.resolved_subtotals(o, d, tdim)
            gsubs = sorted(e + len(subs) for e in order if e < 0)
            okey = "columns_dimension" if key == "rows_dimension" else "rows_dimension"
            opp_prune = od is not None and (tr.get(okey) or {}).get("prune") is True
            if opp_prune and all_empty.get(od, False):
                exp_subs = []
                if subs:
                    res.classes.append("subtotals_pruned")
            else:
                exp_subs = list(range(len(subs)))
            res.check("subtotal_visibility", gsubs == exp_subs, "subtotals/%s" % oname,
                      {"got": gsubs, "exp": exp_subs})
            # shape / labels / is_empty agree with the order
            lab = read(part, "row_labels" if oname == "row_order" else "column_labels")
            res.check("shape_and_labels", lab.ok and len(lab.value) == len(order),
                      "labels_len/%s" % oname, {"labels": repr(lab)[:200], "n": len(order)})
        shp = read(part, "shape")
        emp = read(part, "is_empty")
        if shp.ok and emp.ok:
            res.check("shape_and_labels", bool(emp.value) == any(s == 0 for s in shp.value),
                      "is_empty", {"shape": list(shp.value), "is_empty": bool(emp.value)})
    res.nontrivial = o.N >= 5 and removed and kept
    return res
