"""C10 - transposing the response transposes the result (M)."""

import copy
import re

import numpy as np

from .. import cases, gen, sim, expect, partcmp, transforms as T
from ..harness import CaseResult
from ..probe import read, snap

ID = "C10"
TITLE = "Transposing the response transposes the result"
TEMPLATES = [
    "cat|cat", "cat|mr", "mr|cat", "mr|mr", "cai|cac", "cac|cai", "cat|cat_date",
    "cat_date|cat", "mr|cat_date", "cat|text", "binned|cat", "logical|mr", "cat|cat|cat",
    "mr|cat|mr", "cat|mr|cat", "cat|cai|cac", "mr|mr|cat", "cat|cat|mr", "cat_date|cat_date",
]
RULE = (
    "Pairs of responses from the same survey: A = (table x) rows x columns, B = (table x) "
    "columns x rows with data transposed by the builder and insertions, differences, element "
    "transforms, prune flags and orders (explicit / label / opposing element or insertion with "
    "the mirrored measure keyword) exchanged between the two dimensions; %d templates x "
    "weighting x measure sets {count, +sum, +mean/stddev}. Every public _Slice property whose "
    "name has a row<->column counterpart is compared with that counterpart (matrices "
    "transposed); direction-free properties with their own transposes. Non-trivial: N >= 5, "
    ">= 2 valid elements on both dimensions, the table is not symmetric." % len(TEMPLATES))
ASSUMPTIONS = [
    "one-directional features are excluded by name: column index, pairwise column tests, "
    "smoothing, squared bases, scale-mean pairwise indices, payload_order, fills, names",
    "numeric-array rows cannot be transposed (the library only supports them as rows)",
    "with categorical dates on both dimensions the population proportion is direction "
    "dependent by design (C17): population_* excluded there",
]
TECHNIQUE = "relational (two-run) runtime monitor: response vs transposed response over paired public properties"
DESIGN_REF = "DESIGN.md 4 C10"
WEIGHTS = ["none", "frac", "zeros", "float", "tiny"]
MSETS = [(), ("sum",), (), ("mean", "stddev"), ("sum", "mean"), ()]
REQUIRED_REACH = ["paired", "direction_free", "orders", "masks", "class:ins", "class:diff",
                  "class:transformed", "class:sum_measure", "class:pair=CATxMR",
                  "class:pair=MRxMR", "class:pair=ARRxCAT", "class:corpus"]
BATCH = 25
UNIT_TIMEOUT_S = 40

ONE_DIRECTIONAL = {
    "column_index", "smoothed_column_index", "smoothed_column_percentages",
    "smoothed_column_proportions", "smoothed_columns_scale_mean", "smoothed_means",
    "columns_squared_base", "columns_scale_mean_pairwise_indices",
    "columns_scale_mean_pairwise_indices_alt", "pairwise_indices", "pairwise_indices_alt",
    "pairwise_means_indices", "pairwise_means_indices_alt", "pairwise_significance_tests",
    "summary_pairwise_indices", "payload_order", "rows_dimension_fills", "name", "description",
    "table_name", "tab_label", "tab_alias", "has_scale_means", "variable_name",
    "rows_dimension_alias", "cube_index", "selected_category_labels", "min_base_size_mask",
    "residual_test_stats", "dimension_types", "shape",
}


def swap_name(n):
    def sw(m):
        w = m.group(0)
        return {"rows": "columns", "columns": "rows", "row": "column", "column": "row"}[w]
    return re.sub(r"rows|columns|row|column", sw, n)


def swap_measure_kw(kw):
    if kw.startswith("col_"):
        return "row_" + kw[4:]
    if kw.startswith("row_"):
        return "col_" + kw[4:]
    return kw


def units(tier, seed):
    from .. import corpus

    n = 500 if tier == "quick" else 30000
    # W1 synthetic surveys, then W3: real 2-D payloads of the fixture corpus, transposed
    return [{"i": i, "seed": seed} for i in range(n)] + corpus.units(
        tier, seed, reps=1 if tier == "quick" else 8)


def make_case(unit):
    if "corpus" in unit:
        from .. import corpus

        rel = corpus.fixture_paths()[unit["corpus"]]
        g = gen.G("C10/corpus/%s/%s/%s" % (unit["seed"], unit["corpus"], unit["rep"]))
        resp = corpus.load(rel)
        tr = {} if unit["rep"] == 0 and unit["corpus"] % 2 else \
            corpus.random_full_transforms(g, resp)
        for key in ("rows_dimension", "columns_dimension"):
            od = (tr.get(key) or {}).get("order") or {}
            if od.get("type") == "opposing_element":
                od["measure"] = "count_unweighted"  # integers: ties are ties on both sides
        return {"fixture": rel, "population": 1000, "transforms": tr}
    i = unit["i"]
    g = gen.G("C10/%s/%s" % (unit["seed"], i))
    template = TEMPLATES[i % len(TEMPLATES)]
    j = i // len(TEMPLATES)
    wmode = WEIGHTS[j % len(WEIGHTS)]
    mset = MSETS[gen.stratum(ID, i, 1, len(MSETS))]
    N = g.pick([5, 8, 12, 20, 30, 45, 60])
    nparts = len(template.split("|"))
    sizes = [g.r.randint(2, 5) for _ in range(nparts)]
    facets = cases.random_facets(g, template, N, sizes=sizes, p_zero=0.15)
    cases.entangle_some(g, facets)
    tr = {}
    if g.chance(0.65):
        cases.attach_insertions(g, facets, tr)
    if wmode == "float" and g.chance(0.5):
        cases.add_total_subtotals(facets, tr)
    spec = sim.CubeSpec(facets, g.weights(N, wmode), mset, g.num(N) if mset else None)
    if g.chance(0.5):
        _both_way_transforms(g, spec, tr, exact=wmode != "float")
    return {"template": template, "spec": sim.spec_to_dict(spec), "transforms": tr,
            "population": 1000, "mask_size": g.pick([0, 4, 9])}


def _both_way_transforms(g, spec, tr, exact=True):
    o = sim.Oracle(spec)
    nd = o.ndim
    measures = ["count_weighted", "count_unweighted", "table_percent", "z_score", "p_value",
                "col_percent", "row_percent", "col_base_weighted", "row_base_unweighted",
                "table_std_err", "row_std_err", "col_percent_moe", "table_base_unweighted"]
    for key, d, od, okey in (("rows_dimension", nd - 2, nd - 1, "columns_dimension"),
                             ("columns_dimension", nd - 1, nd - 2, "rows_dimension")):
        ids, _ = T.transform_ids(o, d)
        oids, _ = T.transform_ids(o, od)
        osub = [s["id"] for s in expect.resolved_subtotals(o, od, tr.get(okey))]
        dd = tr.setdefault(key, {})
        els = T.random_hides(g, ids, p=0.4)
        if els:
            dd["elements"] = els
        if g.chance(0.3):
            dd["prune"] = True
        # with weights that are not exactly representable two mathematically equal sort
        # values (two subtotals with the same members) differ in their last bit, differently
        # for a table and its transpose: no sort-by-value orders there
        order = T.random_order(g, ids, [], oids, osub, "cols", False, measures,
                               kinds=["none", "explicit", "payload_order", "label"] + (
                                   ["opposing_element", "opposing_insertion"] if exact else []))
        if order:
            dd["order"] = order
        if not dd:
            del tr[key]


def transpose_case(case):
    """The mirrored case: last two facets exchanged, transforms exchanged."""
    spec = sim.spec_from_dict(case["spec"])
    f = list(spec.facets)
    f[-2], f[-1] = f[-1], f[-2]
    s2 = copy.copy(spec)
    s2.facets = f
    tr = copy.deepcopy(case.get("transforms") or {})
    tr2 = {k: v for k, v in tr.items() if k not in ("rows_dimension", "columns_dimension")}
    if "rows_dimension" in tr:
        tr2["columns_dimension"] = tr["rows_dimension"]
    if "columns_dimension" in tr:
        tr2["rows_dimension"] = tr["columns_dimension"]
    for key in ("rows_dimension", "columns_dimension"):
        od = (tr2.get(key) or {}).get("order")
        if od and "measure" in od:
            od["measure"] = swap_measure_kw(od["measure"])
    c2 = dict(case)
    c2["spec"] = sim.spec_to_dict(s2)
    c2["transforms"] = tr2
    return c2


def _swap_transforms(tr):
    tr = copy.deepcopy(tr or {})
    tr2 = {k: v for k, v in tr.items() if k not in ("rows_dimension", "columns_dimension")}
    if "rows_dimension" in tr:
        tr2["columns_dimension"] = tr["rows_dimension"]
    if "columns_dimension" in tr:
        tr2["rows_dimension"] = tr["columns_dimension"]
    for key in ("rows_dimension", "columns_dimension"):
        od = (tr2.get(key) or {}).get("order")
        if od and "measure" in od:
            od["measure"] = swap_measure_kw(od["measure"])
    return tr2


def _check_corpus(case):
    """A real payload and the same payload with its two dimensions exchanged."""
    import json as _json
    from cr.cube.cube import Cube
    from .. import corpus

    res = CaseResult()
    resp = corpus.load(case["fixture"])
    res.descriptor = {"fixture": case["fixture"], "transforms": case["transforms"]}
    respT = corpus.transposed_response(resp)
    if respT is None:
        res.skipped["corpus_not_a_plain_2d_cube"] += 1
        return res
    res.classes.append("corpus")
    tr = case["transforms"]
    cA = Cube(_json.loads(_json.dumps(resp)), transforms=copy.deepcopy(tr),
              population=case["population"], mask_size=4)
    cB = Cube(respT, transforms=_swap_transforms(tr), population=case["population"],
              mask_size=4)
    pA, pB = read(cA, "partitions"), read(cB, "partitions")
    if not (pA.ok and pB.ok):
        same = (not pA.ok) and (not pB.ok) and type(pA.exc) is type(pB.exc)
        res.check("partitions_readable", same, "corpus/exception/partitions",
                  {"A": repr(pA)[:200], "B": repr(pB)[:200]})
        return res
    if len(pA.value) != 1 or len(pB.value) != 1:
        res.skipped["corpus_ca_as_0th"] += 1
        return res
    a, b = pA.value[0], pB.value[0]
    dts = read(a, "dimension_types")
    both_dates = dts.ok and all(t.name == "CAT_DATE" for t in dts.value)
    names = partcmp.public_names(a)
    nameset = set(names)
    for n in names:
        if n in ONE_DIRECTIONAL:
            continue
        m = swap_name(n)
        if m != n and m not in nameset:
            continue
        if both_dates and n.startswith("population"):
            continue
        ga, gb = read(a, n), read(b, m)
        mon = "direction_free" if m == n else "paired"
        if not ga.ok or not gb.ok:
            same_exc = (not ga.ok) and (not gb.ok) and type(ga.exc) is type(gb.exc)
            res.check(mon, same_exc, "corpus/outcome/%s" % n,
                      {"A": repr(ga)[:200], "B": repr(gb)[:200]})
            continue
        va, vb = ga.value, gb.value
        if va is None or vb is None:
            res.check(mon, va is None and vb is None, "corpus/none/%s" % n,
                      {"A": snap(va), "B": snap(vb)})
            continue
        # real weights are not exactly representable: tolerance as for the float stratum
        atol = 4e-4 if n.startswith("population") else 2e-7
        ok, det = partcmp.values_same(va, _tvalue(vb), rtol=1e-7, atol=atol)
        res.check(mon, ok, "corpus/%s/%s" % (mon, n), det)
    for fa, fb in (("row_order", "column_order"), ("column_order", "row_order")):
        ga, gb = read(a, fa), read(b, fb)
        res.check("orders", ga.ok and gb.ok and snap(ga.value) == snap(gb.value),
                  "corpus/orders/%s" % fa, {"A": repr(ga)[:200], "B": repr(gb)[:200]})
    res.nontrivial = True
    return res


def check_case(case):
    if "fixture" in case:
        return _check_corpus(case)
    res = CaseResult()
    LA = cases.realize(case)
    caseB = transpose_case(case)
    LB = cases.realize(caseB)
    o = LA.oracle
    nd = o.ndim
    res.descriptor = cases.describe(case)
    res.classes.append("pair=%sx%s" % (o.typestr(nd - 2), o.typestr(nd - 1)))
    tr = case.get("transforms") or {}
    if any((tr.get(k) or {}).get(x) for k in ("rows_dimension", "columns_dimension")
           for x in ("elements", "order", "prune")):
        res.classes.append("transformed")
    if "sum" in LA.spec.measures:
        res.classes.append("sum_measure")
    pA, pB = read(LA.cube, "partitions"), read(LB.cube, "partitions")
    if not res.check("partitions_readable", pA.ok and pB.ok and len(pA.value) == len(pB.value),
                     "exception/partitions", {"A": repr(pA)[:200], "B": repr(pB)[:200]}):
        return res
    both_dates = all(getattr(o.facets[d][1], "kind", "") == "cat_date" for d in (nd - 2, nd - 1))
    asym = False
    for t, (a, b) in enumerate(zip(pA.value, pB.value)):
        asym |= _pair(res, LA, t, a, b, both_dates)
    res.nontrivial = (o.N >= 5 and o.n_valid(nd - 2) >= 2 and o.n_valid(nd - 1) >= 2 and asym)
    return res


def _only_zero_variance_cells(L, part, va, vb):
    """True when the weights are not exactly representable and va / vb differ only in cells
    whose row or column base takes up the whole table base (up to rounding): the residual
    there is 0/0 and what is reported is decided by the last bits of three sums."""
    w = L.spec.weight
    if w is None or not np.any((np.asarray(w, dtype=float) * 8) % 1 != 0):
        return False
    try:
        A, B = np.asarray(va, dtype=float), np.asarray(vb, dtype=float)
        tb = np.asarray(read(part, "table_weighted_bases").value, dtype=float)
        rb = np.asarray(read(part, "row_weighted_bases").value, dtype=float)
        cb = np.asarray(read(part, "column_weighted_bases").value, dtype=float)
    except Exception:
        return False
    if A.shape != B.shape or A.shape != tb.shape or A.ndim != 2:
        return False
    with np.errstate(invalid="ignore"):
        differ = ~((A == B) | (np.isnan(A) & np.isnan(B)) | np.isclose(A, B, rtol=1e-9,
                                                                        atol=1e-12))
        zero_var = (np.abs(tb - rb) <= 1e-9 * np.abs(tb)) | (np.abs(tb - cb) <= 1e-9 * np.abs(tb))
    return bool(differ.any()) and bool(np.all(zero_var[differ]))


def _tvalue(v):
    a = np.asarray(v) if not isinstance(v, np.ndarray) else v
    if a.ndim == 2:
        return a.T
    return v


def _pair(res, L, t, a, b, both_dates):
    V = expect.SliceView(L, t, a)
    if V.row_subs or V.col_subs:
        res.classes.append("ins")
    if any(V.is_diff(e) for e in V.rows + V.cols):
        res.classes.append("diff")
    names = partcmp.public_names(a)
    nameset = set(names)
    w = L.spec.weight
    loose = w is not None and bool(np.any((np.asarray(w, dtype=float) * 8) % 1 != 0))
    if loose:
        res.classes.append("weights_not_representable")
    for n in names:
        if n in ONE_DIRECTIONAL:
            continue
        m = swap_name(n)
        if m != n and m not in nameset:
            res.skipped["no_counterpart:%s" % n] += 1
            continue
        if both_dates and n.startswith("population"):
            res.skipped["both_dates:%s" % n] += 1
            continue
        ga, gb = read(a, n), read(b, m)
        mon = "direction_free" if m == n else "paired"
        if not ga.ok or not gb.ok:
            same_exc = (not ga.ok) and (not gb.ok) and type(ga.exc) is type(gb.exc)
            res.check(mon, same_exc, "outcome/%s" % n, {"A": repr(ga)[:200], "B": repr(gb)[:200]})
            continue
        va, vb = ga.value, gb.value
        if va is None or vb is None:
            res.check(mon, va is None and vb is None, "none/%s" % n,
                      {"A": snap(va), "B": snap(vb)})
            continue
        rtol, atol = 1e-9, 1e-12
        if loose:
            # square roots of rounding residues (1e-16 -> 1e-8), scaled by the population
            rtol, atol = 1e-7, (4e-4 if n.startswith("population") else 2e-7)
        ok, det = partcmp.values_same(va, _tvalue(vb), rtol=rtol, atol=atol)
        blk = ""
        if not ok and n in ("zscores", "pvals", "pvalues") and _only_zero_variance_cells(
                L, a, va, _tvalue(vb)):
            # 0/0 cells decided by rounding (known finding, DESIGN.md 5.2)
            res.classes.append("zero_variance_cell_rounding")
            res.check(mon, False, "%s/%s/zero_variance_cell_rounding" % (mon, n), det)
            continue
        if not ok and isinstance(det, dict) and "at" in det and len(det["at"]) == 2:
            i, j = det["at"]
            if i < len(V.rows) and j < len(V.cols):
                blk = "/" + ("intersection" if V.is_sub(V.rows[i]) and V.is_sub(V.cols[j]) else
                             "inserted_row" if V.is_sub(V.rows[i]) else
                             "inserted_column" if V.is_sub(V.cols[j]) else "body")
        res.check(mon, ok, "%s/%s%s" % (mon, n, blk), det)
    # orders, shape, types
    for fa, fb in (("row_order", "column_order"), ("column_order", "row_order")):
        ga, gb = read(a, fa), read(b, fb)
        res.check("orders", ga.ok and gb.ok and snap(ga.value) == snap(gb.value),
                  "orders/%s" % fa, {"A": repr(ga)[:200], "B": repr(gb)[:200]})
    sa, sb = read(a, "shape"), read(b, "shape")
    res.check("orders", sa.ok and sb.ok and tuple(sa.value) == tuple(sb.value)[::-1], "shape",
              {"A": repr(sa)[:80], "B": repr(sb)[:80]})
    ma, mb = read(a, "min_base_size_mask"), read(b, "min_base_size_mask")
    if ma.ok and mb.ok:
        for x, y in (("row_mask", "column_mask"), ("column_mask", "row_mask"),
                     ("table_mask", "table_mask")):
            ok, det = partcmp.values_same(read(ma.value, x).value,
                                          np.asarray(read(mb.value, y).value).T)
            res.check("masks", ok, "masks/%s" % x, det)
    ra, rb = read(a, "residual_test_stats"), read(b, "residual_test_stats")
    if ra.ok and rb.ok:
        rbt = np.transpose(np.asarray(rb.value), (0, 2, 1))
        ok, det = partcmp.values_same(ra.value, rbt)
        if not ok and all(_only_zero_variance_cells(L, a, np.asarray(ra.value)[k], rbt[k])
                          for k in range(2)):
            res.check("direction_free", False,
                      "direction_free/residual_test_stats/zero_variance_cell_rounding", det)
        else:
            res.check("direction_free", ok, "direction_free/residual_test_stats", det)
    c = read(a, "counts")
    if c.ok:
        m = np.asarray(c.value, dtype=float)
        return m.shape[0] != m.shape[1] or not np.array_equal(np.nan_to_num(m),
                                                              np.nan_to_num(m.T))
    return False
