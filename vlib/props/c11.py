"""C11 - variance, standard error and margin of error of proportions (R + I)."""

import math

import numpy as np

from .. import cases, cmp, corpus, gen, sim, expect, w4
from ..harness import CaseResult
from ..probe import read

ID = "C11"
TITLE = "Variance, standard error and margin of error of proportions"
TEMPLATES = [t for t in cases.TEMPLATES_1D + cases.TEMPLATES_2D + cases.TEMPLATES_3D] + [
    "cat_date", "cat_date", "cat"]
RULE = (
    "W1 synthetic surveys over %d templates x weighting x {none, sum, sum+difference "
    "insertions with disjoint addend/subtrahend sets}. Expected variance = weighted variance, "
    "over the respondents in the proportion's base, of the +1/-1/0 membership indicator, "
    "computed from respondent masks. Non-trivial: >= 2 valid elements per dimension, N >= 5 "
    "and at least one cell with a variance strictly > 0." % len(TEMPLATES))
ASSUMPTIONS = [
    "response builder as in C01; eligibility as in C02",
    "addend and subtrahend sets are generated disjoint (a respondent in both has no indicator)",
    "differences on a categorical-date dimension are excluded (their proportion is a "
    "difference of percentages, C04)",
]
TECHNIQUE = "reference-model runtime monitor (respondent-level indicator variance) + intrinsic relations"
DESIGN_REF = "DESIGN.md 4 C11"
WEIGHTS = ["none", "frac", "zeros", "float", "scales", "tiny"]
INS = ["none", "sum", "diff", "diff"]
REQUIRED_REACH = ["variance", "std_dev_is_sqrt", "std_err", "moe_is_z_times_se", "strand",
                  "nan_where_proportion_undefined",
                  "class:undefined_proportion_on_a_defined_base",
                  "class:cell=ordinary", "class:cell=subtotal", "class:cell=difference",
                  "class:cell=intersection", "class:pair=CATxMR", "class:pair=MRxCAT",
                  "class:pair=MRxMR", "class:pair=ARRxCAT"]
BATCH = 40
RULE = RULE + corpus.RULE_SUFFIX + w4.RULE_SUFFIX
REQUIRED_REACH = list(REQUIRED_REACH) + ["class:corpus", "class:w4"]
TECHNIQUE = TECHNIQUE + corpus.TECHNIQUE_SUFFIX
Z = 1.959964
ROOT_ATOL = 1e-7


def units(tier, seed):
    n = 600 if tier == "quick" else 30000
    # W1 synthetic surveys, then W3: the fixture corpus under the intrinsic relations
    return [{"i": i, "seed": seed} for i in range(n)] + corpus.units(tier, seed) + w4.units(tier, seed)


def make_case(unit):
    if "corpus" in unit:
        return corpus.make_case(ID, unit)
    if "w4" in unit:
        return w4.make_case(ID, unit)
    i = unit["i"]
    g = gen.G("C11/%s/%s" % (unit["seed"], i))
    template = TEMPLATES[i % len(TEMPLATES)]
    j = i // len(TEMPLATES)
    wmode = WEIGHTS[j % len(WEIGHTS)]
    ins = INS[gen.stratum(ID, i, 1, len(INS))]
    N = g.pick([1, 4, 8, 12, 20, 30, 45, 60])
    facets = cases.random_facets(g, template, N)
    cases.entangle_some(g, facets)
    transforms = {}
    if ins != "none":
        cases.attach_insertions(g, facets, transforms, allow_diff=(ins == "diff"),
                                disjoint=True, hide_some=False)
    if ins == "diff" and g.chance(0.35):
        cases.add_first_element_difference(g, facets, transforms)
    if "cat_date" in template.split("|")[-2:] and g.chance(0.7):
        from .c04 import _date_diffs

        _date_diffs(g, facets, transforms)  # one-minus-one and several-term wave differences
    if wmode == "float" and g.chance(0.85):
        cases.add_total_subtotals(facets, transforms)
    mset, numvar = (("mean",) if "numarr" in template else ()), None
    if ins == "diff" and "numarr" not in template and len(facets) >= 2 and \
            gen.stratum(ID, i, "vc", 3) == 0:
        # a mean next to the counts: the response carries valid counts, a difference has no
        # proportion there (NaN) although its terms' counts and its base are defined
        mset, numvar = ("mean",), g.num(N)
    w_ = g.weights(N, wmode)
    if w_ is not None and not mset and len(facets) >= 2 and gen.stratum(ID, i, "sq", 3) == 0:
        # squared weights ride along (requested for the pairwise tests): the std-err and MoE
        # of a proportion keep the plain weighted base
        mset = ("sq_weights",)
    spec = sim.CubeSpec(facets, w_, mset, numvar)
    return {"template": template, "spec": sim.spec_to_dict(spec), "transforms": transforms,
            "ins": ins, "mask_size": cases.mask_size_for(ID, i)}


def check_case(case):
    if "fixture" in case:
        return corpus.check_case(ID, case)
    if case.get("w4"):
        return w4.check_case(ID, case)
    res = CaseResult()
    L = cases.realize(case)
    o = L.oracle
    nd = o.ndim
    res.descriptor = cases.describe(case)
    if nd >= 2:
        res.classes.append("pair=%sx%s" % (o.typestr(nd - 2), o.typestr(nd - 1)))
    parts = read(L.cube, "partitions")
    if not res.check("partitions_readable", parts.ok, "exception/partitions",
                     {"exc": repr(parts.exc)}):
        return res
    positive = [False]
    for t, part in enumerate(parts.value):
        if nd == 1:
            _strand(res, L, part, positive)
        else:
            _slice(res, L, t, part, positive)
    res.nontrivial = all(o.n_valid(d) >= 2 for d in range(nd)) and o.N >= 5 and positive[0]
    return res


def _date_diff(V, e, axis):
    role, var = V.o.facets[V.R if axis == 0 else V.C]
    return V.is_diff(e) and getattr(var, "kind", "") == "cat_date"


def _slice(res, L, t, part, positive):
    V = expect.SliceView(L, t, part)
    nr, nc = len(V.rows), len(V.cols)
    if nr == 0 or nc == 0:
        return
    skip = np.zeros((nr, nc), dtype=bool)
    for i, r in enumerate(V.rows):
        for j, c in enumerate(V.cols):
            skip[i, j] = (_date_diff(V, r, 0) or _date_diff(V, c, 1)
                          or (V.valid_count_mode and (V.is_diff(r) or V.is_diff(c))))
            kind = ("intersection" if V.is_sub(r) and V.is_sub(c) else
                    "difference" if V.is_diff(r) or V.is_diff(c) else
                    "subtotal" if V.is_sub(r) or V.is_sub(c) else "ordinary")
            res.classes.append("cell=%s" % kind)
    for direction, name in (("row", "row"), ("col", "column"), ("table", "table")):
        var = np.full((nr, nc), np.nan)
        se = np.full((nr, nc), np.nan)
        for i, r in enumerate(V.rows):
            for j, c in enumerate(V.cols):
                if skip[i, j]:
                    continue
                v, W, p = expect.cell_variance(V, r, c, direction)
                var[i, j] = v
                se[i, j] = math.sqrt(v / W) if not math.isnan(v) and W > 0 else float("nan")
        if np.nanmax(np.where(np.isnan(var), 0, var)) > 0:
            positive[0] = True
        gv = read(part, "%s_proportion_variances" % name)
        gsd = read(part, "%s_std_dev" % name)
        gse = read(part, "%s_std_err" % name)
        gmoe = read(part, "%s_proportions_moe" % name)
        for nm, g in (("variances", gv), ("std_dev", gsd), ("std_err", gse), ("moe", gmoe)):
            if not g.ok:
                res.check("readable", False, "exception/%s_%s" % (name, nm),
                          {"exc": repr(g.exc)})
        if not (gv.ok and gsd.ok and gse.ok and gmoe.ok):
            continue
        gva = np.asarray(gv.value, dtype=float)
        gprop = read(part, "%s_proportions" % name)
        gbase = read(part, "%s_weighted_bases" % name)
        if gprop.ok and np.asarray(gprop.value).shape == gva.shape:
            # NaN wherever the proportion is undefined - whatever its terms and base are
            und = np.isnan(np.asarray(gprop.value, dtype=float))
            if gbase.ok and np.asarray(gbase.value).shape == und.shape:
                with np.errstate(invalid="ignore"):
                    if bool(np.any(und & (np.asarray(gbase.value, dtype=float) > 0))):
                        res.classes.append("undefined_proportion_on_a_defined_base")
            bad = [nm for nm, g in (("variances", gv), ("std_dev", gsd), ("std_err", gse),
                                    ("moe", gmoe))
                   if np.asarray(g.value).shape == und.shape
                   and not bool(np.all(np.isnan(np.asarray(g.value, dtype=float)[und])))]
            res.check("nan_where_proportion_undefined", not bad,
                      "slice/%s/defined_where_proportion_is_not" % name,
                      None if not bad else {"measures": bad, "proportions":
                                            np.asarray(gprop.value).tolist(),
                                            "variances": gva.tolist()})
        if gva.shape != var.shape:
            res.check("variance", False, "slice/%s/shape" % name,
                      {"got": list(gva.shape), "exp": list(var.shape)})
            continue
        m = ~skip
        ok, det = cmp.same(np.where(m, gva, 0), np.where(m, var, 0), rtol=1e-9, atol=1e-12)
        res.check("variance", ok, "slice/%s_proportion_variances" % name, det)
        gsea = np.asarray(gse.value, dtype=float)
        # a square root turns a last-bit variance (1e-16 with weights that are not exactly
        # representable) into 1e-8: absolute tolerance on the root, tight one on the variance
        ok, det = cmp.same(np.where(m, gsea, 0), np.where(m, se, 0), rtol=1e-9, atol=ROOT_ATOL)
        res.check("std_err", ok, "slice/%s_std_err" % name, det)
        # intrinsic relations and sign
        with np.errstate(invalid="ignore"):
            ok, det = cmp.same(gsd.value, np.sqrt(gva))
        res.check("std_dev_is_sqrt", ok, "slice/%s_std_dev" % name, det)
        ok, det = cmp.same(gmoe.value, Z * gsea)
        res.check("moe_is_z_times_se", ok, "slice/%s_proportions_moe" % name, det)
        fin = ~np.isnan(gva)
        res.check("non_negative", bool(np.all(gva[fin] >= 0)
                                       and np.all(gsea[~np.isnan(gsea)] >= 0)),
                  "slice/%s/negative" % name, {"var": gva.tolist()})


def _strand(res, L, part, positive):
    o = L.oracle
    tr = L.case.get("transforms") or {}
    subs = expect.resolved_subtotals(o, 0, tr.get("rows_dimension"))
    order = [int(x) for x in read(part, "row_order").value]
    role, v0 = o.facets[0]
    is_date = getattr(v0, "kind", "") == "cat_date"
    vc = L.spec.numarr is not None
    sd, se, skip = [], [], []
    for e in order:
        if e >= 0:
            el, d = e, False
        else:
            s = subs[e + len(subs)]
            el = ("sub", tuple(s["addends"]), tuple(s["subtrahends"]))
            d = bool(s["subtrahends"])
        # a one-minus-one wave difference of a strand is p1 - p2 on one common base: the
        # indicator variance applies; several-term date differences have no proportion (C04)
        one_one = d and len(s["addends"]) == 1 and len(s["subtrahends"]) == 1
        skip.append(d and (vc or (is_date and not one_one)))
        bm = o.mask({0: o._first_base(el)}, (0,))
        w = o.w[bm]
        W = float(w.sum())
        if W == 0:
            sd.append(float("nan"))
            se.append(float("nan"))
            continue
        ind = expect.indicator(o, {0: el})[bm]
        p = float((w * ind).sum() / W)
        var = float((w * (ind - p) ** 2).sum() / W)
        if var > 0:
            positive[0] = True
        sd.append(math.sqrt(var))
        se.append(math.sqrt(var / W))
        res.classes.append("cell=%s" % ("difference" if d else "subtotal" if e < 0
                                        else "ordinary"))
    skip = np.array(skip, dtype=bool)
    for attr, exp in (("table_proportion_stddevs", sd), ("table_proportion_stderrs", se),
                      ("table_proportion_moes", [Z * x for x in se])):
        got = read(part, attr)
        if not got.ok:
            res.check("strand", False, "exception/strand/%s" % attr, {"exc": repr(got.exc)})
            continue
        g = np.asarray(got.value, dtype=float)
        e = np.array(exp, dtype=float)
        if g.shape != e.shape:
            res.check("strand", False, "strand/%s/shape" % attr, {"got": list(g.shape)})
            continue
        ok, det = cmp.same(np.where(skip, 0, g), np.where(skip, 0, e), rtol=1e-9,
                           atol=ROOT_ATOL)
        res.check("strand", ok, "strand/%s" % attr, det)
