"""C12 - residual z-scores and p-values are adjusted standardized residuals (R + I)."""

from fractions import Fraction

import numpy as np
from scipy.special import ndtr

from .. import cases, cmp, corpus, gen, sim, expect, w4
from ..harness import CaseResult
from ..probe import read

ID = "C12"
TITLE = "Residual z-scores and p-values are adjusted standardized residuals"
TEMPLATES = ["cat|cat", "cat|mr", "mr|cat", "mr|mr", "cat|cat_date", "cat|cat|cat", "mr|cat|mr",
             "cat|mr|cat", "cai|cac", "cac|cai", "cat|cai|cac", "binned|cat", "cat|text",
             "mr|cat|cat", "cat|cat|mr", "logical|mr"]
MODES = ["generic", "generic", "degenerate", "twobytwo"]
RULE = (
    "W1 synthetic surveys over %d 2-D/3-D templates x weighting x {generic, degenerate by "
    "construction (single row/column, proportional rows, one non-empty row), 2x2} x {none, "
    "sum, difference insertions}. Expected z from the oracle's own per-cell row/column/table "
    "bases; degeneracy decided by exact rational rank of the (dyadic) weighted counts. "
    "Non-trivial: table not degenerate, N >= 5, at least one finite z." % len(TEMPLATES))
ASSUMPTIONS = [
    "response builder as in C01; per-cell bases as in C02",
    "numpy's SVD rank agrees with the exact rational rank on the small dyadic-integer tables "
    "generated (cases are kept away from numerically ambiguous rank boundaries by "
    "construction: counts are multiples of 1/8 below 10^3)",
    "cells whose residual variance is exactly zero only need to be non-finite",
]
TECHNIQUE = "reference-model runtime monitor (residual from oracle bases, exact-rank degeneracy) + intrinsic p/z and chi-square identities"
DESIGN_REF = "DESIGN.md 4 C12"
WEIGHTS = ["none", "frac", "zeros", "float", "tiny", "scales"]
INS = ["none", "sum", "diff"]
REQUIRED_REACH = ["zscores", "pvals", "p_from_z", "degenerate_all_nan", "chi_square_2x2",
                  "residual_test_stats", "class:degenerate", "class:regular",
                  "class:pair=CATxMR", "class:pair=MRxMR", "class:pair=MRxCAT",
                  "class:ins=sum", "class:ins=diff", "class:near_whole_table_vector"]
BATCH = 40
RULE = RULE + corpus.RULE_SUFFIX + w4.RULE_SUFFIX
REQUIRED_REACH = list(REQUIRED_REACH) + ["class:corpus", "class:w4"]
TECHNIQUE = TECHNIQUE + corpus.TECHNIQUE_SUFFIX


def units(tier, seed):
    n = 900 if tier == "quick" else 30000
    # W1 synthetic surveys, then W3: the fixture corpus under the intrinsic relations
    return [{"i": i, "seed": seed} for i in range(n)] + corpus.units(tier, seed) + w4.units(tier, seed)


def make_case(unit):
    if "corpus" in unit:
        return corpus.make_case(ID, unit)
    if "w4" in unit:
        return w4.make_case(ID, unit)
    i = unit["i"]
    g = gen.G("C12/%s/%s" % (unit["seed"], i))
    template = TEMPLATES[i % len(TEMPLATES)]
    j = i // len(TEMPLATES)
    mode = MODES[j % len(MODES)]
    ins = INS[(j // len(MODES)) % len(INS)]
    wmode = WEIGHTS[gen.stratum(ID, i, "w", len(WEIGHTS))]
    N = g.pick([6, 10, 16, 25, 40, 60, 80])
    sizes = None
    nparts = len(template.split("|"))
    if mode == "twobytwo":
        sizes = [g.r.randint(1, 3)] * (nparts - 2) + [2, 2] if nparts == 3 else [2, 2]
    elif mode == "degenerate" and g.chance(0.4):
        sizes = [None] * nparts
        sizes[g.pick([nparts - 2, nparts - 1])] = 1
    if mode == "generic":
        sizes = [g.r.randint(2, 5) for _ in range(nparts)]
    facets = cases.random_facets(g, template, N, sizes=sizes,
                                 p_zero=0.03 if mode != "degenerate" else 0.2)
    if mode == "degenerate" and sizes is None:
        _degenerate(g, facets)
    transforms = {}
    if ins != "none" and mode != "twobytwo":
        cases.attach_insertions(g, facets, transforms, allow_diff=(ins == "diff"),
                                hide_some=False)
    if wmode == "float" and g.chance(0.5) and mode != "twobytwo":
        cases.add_total_subtotals(facets, transforms)
    if g.chance(0.2) and mode != "degenerate":
        # hide all but one row (or column): the survivors' residuals are those of the whole
        # table, hidden vectors still count in every base
        _hide_all_but_one(g, facets, transforms)
    if g.chance(0.3):
        # sort by the very statistics under test (their NaN cells are sort keys too): what is
        # reported must not depend on having been used as a sort key
        _sort_by_residuals(g, facets, transforms)
    spec = sim.CubeSpec(facets, g.weights(N, wmode), ())
    return {"template": template, "spec": sim.spec_to_dict(spec), "transforms": transforms,
            "ins": ins, "mode": mode, "mask_size": cases.mask_size_for(ID, i)}


def _hide_all_but_one(g, facets, transforms):
    from .. import transforms as T

    o = sim.Oracle(sim.CubeSpec(facets, None, ()))
    nd = o.ndim
    key, d = g.pick([("rows_dimension", nd - 2), ("columns_dimension", nd - 1)])
    ids, _ = T.transform_ids(o, d)
    if len(ids) < 2:
        return
    keep = g.pick(ids)
    dd = transforms.setdefault(key, {})
    dd["elements"] = {str(i): {"hide": True} for i in ids if i != keep}
    dd.pop("insertions", None)
    dd["insertions"] = []  # no subtotal shown either: exactly one vector is displayed


def _sort_by_residuals(g, facets, transforms):
    from .. import transforms as T

    o = sim.Oracle(sim.CubeSpec(facets, None, ()))
    nd = o.ndim
    for key, d, od in (("rows_dimension", nd - 2, nd - 1), ("columns_dimension", nd - 1, nd - 2)):
        if not g.chance(0.6):
            continue
        oids, _ = T.transform_ids(o, od)
        if not oids:
            continue
        order = {"type": "opposing_element", "measure": g.pick(["z_score", "p_value"]),
                 "element_id": g.pick(oids)}
        if g.chance(0.5):
            order["direction"] = g.pick(["ascending", "descending"])
        transforms.setdefault(key, {})["order"] = order


def _degenerate(g, facets):
    """Make the rows x columns table rank < 2: one non-empty row, or identical row profiles."""
    lf = cases.library_order_facets(facets)
    (rrole, rv), (crole, cv) = lf[-2], lf[-1]
    how = g.pick(["one_row", "proportional", "one_col"])
    if rrole == "cat" and crole == "cat" and rv is not cv:
        N = rv.n
        if how == "one_row":
            valid = [k for k, c in enumerate(rv.cats) if not c.get("missing")]
            if valid:
                rv.ans[:] = g.pick(valid)
        elif how == "one_col":
            valid = [k for k, c in enumerate(cv.cats) if not c.get("missing")]
            if valid:
                cv.ans[:] = g.pick(valid)
        else:
            # identical column profile in every row: columns cycle within each row group
            valid = [k for k, c in enumerate(cv.cats) if not c.get("missing")]
            if valid:
                for k in set(rv.ans.tolist()):
                    idx = np.where(rv.ans == k)[0]
                    for n_, i_ in enumerate(idx):
                        cv.ans[i_] = valid[n_ % len(valid)]
    elif rrole == "mr":
        rv.state[:, 1:] = sim.MIS if rv.state.shape[1] > 1 else rv.state[:, 1:]
    elif crole == "mr":
        cv.state[:, 1:] = sim.MIS if cv.state.shape[1] > 1 else cv.state[:, 1:]


def exact_rank(mat):
    """Exact rank of a matrix of floats (each an exact rational) by fraction Gaussian
    elimination."""
    rows = [[Fraction(float(x)) for x in row] for row in mat]  # floats are exact rationals
    rank = 0
    ncols = len(rows[0]) if rows else 0
    for col in range(ncols):
        piv = None
        for r in range(rank, len(rows)):
            if rows[r][col] != 0:
                piv = r
                break
        if piv is None:
            continue
        rows[rank], rows[piv] = rows[piv], rows[rank]
        for r in range(len(rows)):
            if r != rank and rows[r][col] != 0:
                f = rows[r][col] / rows[rank][col]
                rows[r] = [a - f * b for a, b in zip(rows[r], rows[rank])]
        rank += 1
    return rank


def check_case(case):
    if "fixture" in case:
        return corpus.check_case(ID, case)
    if case.get("w4"):
        return w4.check_case(ID, case)
    res = CaseResult()
    L = cases.realize(case)
    o = L.oracle
    nd = o.ndim
    res.descriptor = cases.describe(case, {"mode": case["mode"]})
    res.classes.append("pair=%sx%s" % (o.typestr(nd - 2), o.typestr(nd - 1)))
    res.classes.append("ins=%s" % case["ins"])
    parts = read(L.cube, "partitions")
    if not res.check("partitions_readable", parts.ok, "exception/partitions",
                     {"exc": repr(parts.exc)}):
        return res
    any_finite = False
    for t, part in enumerate(parts.value):
        any_finite |= _slice(res, L, t, part)
    res.nontrivial = o.N >= 5 and any_finite
    return res


def _slice(res, L, t, part):
    V = expect.SliceView(L, t, part)
    o = V.o
    nr, nc = len(V.rows), len(V.cols)
    gz = read(part, "zscores")
    gp = read(part, "pvals")
    if not res.check("zscores", gz.ok, "exception/zscores", {"exc": repr(gz.exc)}):
        return False
    if not res.check("pvals", gp.ok, "exception/pvals", {"exc": repr(gp.exc)}):
        return False
    z = np.asarray(gz.value, dtype=float)
    p = np.asarray(gp.value, dtype=float)
    res.check("zscores", z.shape == (nr, nc) and p.shape == (nr, nc), "slice/zscores/shape",
              {"got": list(z.shape), "exp": [nr, nc]})
    if z.shape != (nr, nc) or nr == 0 or nc == 0:
        return False
    # base block of weighted counts (all valid elements, payload order)
    nbr, nbc = o.n_valid(V.R), o.n_valid(V.C)
    counts = [[o.total(V.sel(r, c), (), V.weighted) for c in range(nbc)] for r in range(nbr)]
    exact_sums = cases.sums_exact(L.spec)
    degenerate = nbr == 0 or nbc == 0 or exact_rank(counts) < 2
    res.classes.append("degenerate" if degenerate else "regular")
    # p = 2 (1 - Phi(|z|)) in [0, 1]
    with np.errstate(invalid="ignore"):
        pexp = 2 * (1 - ndtr(np.abs(z)))
    ok, det = cmp.same(p, pexp, rtol=1e-9, atol=1e-12)
    res.check("p_from_z", ok, "slice/pvals_vs_z", det)
    fin = ~np.isnan(p)
    res.check("p_from_z", bool(np.all((p[fin] >= 0) & (p[fin] <= 1))), "slice/pvals/range",
              {"p": p.tolist()})
    rts = read(part, "residual_test_stats")
    res.check("residual_test_stats", rts.ok and cmp.same(rts.value, np.stack([p, z]),
                                                         exact=True)[0],
              "slice/residual_test_stats", {"got": repr(rts)[:200]})
    if not degenerate and np.all(np.isnan(z)):
        # independent only below the resolution of double precision (second singular value
        # under 1e-13 of the first: a rank-1 table of large weights plus respondents weighing
        # 2^-37 of them): no floating-point computation can tell this table from a degenerate
        # one, NaN everywhere is accepted and the case is not judged
        sv = np.linalg.svd(np.asarray(counts, dtype=float), compute_uv=False)
        if len(sv) >= 2 and sv[0] > 0 and sv[1] < 1e-13 * sv[0]:
            res.skipped["independent_below_double_precision"] += 1
            return False
    if degenerate:
        res.check("degenerate_all_nan", bool(np.all(np.isnan(z)) and np.all(np.isnan(p))),
                  "slice/zscores/degenerate_not_nan", {"z": z.tolist(), "counts": counts})
        return False
    # regular table: compare cell by cell
    any_finite = False
    bad = None
    zero_var_bad = None
    ambiguous = False
    slacks = {}
    for i, r in enumerate(V.rows):
        for j, c in enumerate(V.cols):
            n = V.count(r, c, True)
            rb = V.base(r, c, "row", True)
            cb = V.base(r, c, "col", True)
            tb = V.base(r, c, "table", True)
            vals = (n, rb, cb, tb)
            if any(x != x for x in vals) or tb == 0:
                if not np.isnan(z[i, j]) and not np.isinf(z[i, j]):
                    bad = bad or {"at": [i, j], "got": float(z[i, j]), "exp": "non-finite",
                                  "n_rb_cb_tb": vals}
                continue
            e = Fraction(rb) * Fraction(cb) / Fraction(tb)
            var = e * (1 - Fraction(rb) / Fraction(tb)) * (1 - Fraction(cb) / Fraction(tb))
            near = abs(tb - rb) <= 1e-9 * abs(tb) or abs(tb - cb) <= 1e-9 * abs(tb)
            if var > 0 and (abs(tb - rb) <= 4e-12 * abs(tb) or abs(tb - cb) <= 4e-12 * abs(tb)):
                # a vector within a few 1e-12 of its table base: what ordinary float sums of
                # the same respondents differ by; "whole table" (NaN) and "not quite" (a
                # number) are both accepted, the cell is not judged
                res.skipped["vector_within_rounding_of_table_base"] += 1
                ambiguous = True
                continue
            if var > 0 and near and exact_sums:
                # weights of very different magnitude whose sums are exact: a row holding
                # all but 1e-11 of the table is not the whole table, its residual is defined
                res.classes.append("near_whole_table_vector")
                near = False
            if var <= 0 or near:
                # (with weights that are not exactly representable a margin equal to the
                # table base shows as equal up to rounding)
                if np.isfinite(z[i, j]):
                    zero_var_bad = zero_var_bad or {"at": [i, j], "got": float(z[i, j]),
                                                    "n_rb_cb_tb": vals}
                continue
            ez = float(Fraction(n) - e) / float(var) ** 0.5
            any_finite = True
            # the library's n - e cancels when a vector is nearly the whole table: allow the
            # rounding of e (a few ulps of the larger operand) carried through the division
            slack = 16 * 2.0 ** -53 * max(abs(float(n)), abs(float(e))) / float(var) ** 0.5
            slacks[(i, j)] = slack
            if not (np.isfinite(z[i, j])
                    and abs(z[i, j] - ez) <= 1e-8 * max(1.0, abs(ez)) + slack):
                bad = bad or {"at": [i, j], "got": float(z[i, j]), "exp": ez,
                              "n_rb_cb_tb": vals}
    res.check("zscores", bad is None, "slice/zscores/value", bad)
    res.check("zero_variance_nonfinite", zero_var_bad is None, "slice/zscores/zero_variance",
              zero_var_bad)
    # 2 x 2 categorical table: z^2 == Pearson chi-square
    if (nbr, nbc) == (2, 2) and V.row_type == "CAT" and V.col_type == "CAT" \
            and not V.row_subs and not V.col_subs and z.shape == (2, 2):
        cnt = np.array(counts, dtype=float)
        tot = cnt.sum()
        e = np.outer(cnt.sum(1), cnt.sum(0)) / tot
        if np.all(e > 0) and not ambiguous:
            fc = [[Fraction(float(x)) for x in row] for row in counts]
            ft = sum(sum(row) for row in fc)
            fe = [[sum(fc[a]) * (fc[0][b] + fc[1][b]) / ft for b in (0, 1)] for a in (0, 1)]
            chi = float(sum((fc[a][b] - fe[a][b]) ** 2 / fe[a][b]
                            for a in (0, 1) for b in (0, 1)))
            # same allowance for the cancellation in count - expected as above
            tol = np.array([[2 * abs(z[a, b]) * slacks.get((a, b), 0.0)
                             + slacks.get((a, b), 0.0) ** 2 for b in (0, 1)]
                            for a in (0, 1)])
            ok = bool(np.all(np.abs(z ** 2 - chi) <= 1e-8 * abs(chi) + 1e-10 + tol))
            res.check("chi_square_2x2", ok, "slice/zscores/chi_square",
                      {"z2": (z ** 2).tolist(), "chi2": chi})
    return any_finite
