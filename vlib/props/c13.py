"""C13 - pairwise column tests: statistic, p-value and index sets (R + I + M)."""

import math

import numpy as np
from scipy.special import stdtr

from .. import cases, cmp, corpus, gen, sim, expect, w4, transforms as T
from ..harness import CaseResult
from ..probe import read

ID = "C13"
TITLE = "Pairwise column tests: statistic, p-value and index sets"
TEMPLATES = ["cat|cat", "cat|cat", "mr|cat", "cat|mr", "cat_date|cat", "cat|cat|cat",
             "cai|cac", "mr|mr", "cat|binned", "cat|cat", "mr|cat|cat", "text|cat",
             "cat|mr", "cat|cat|mr"]
MODES = ["plain", "plain", "sq_weights", "means", "overlap", "plain"]
RULE = (
    "W1 synthetic surveys (%d templates, 20-80 respondents) x {unweighted, weighted, weighted "
    "with squared-weight measure, mean+stddev responses (Welch), MR columns with overlap "
    "measures} x alpha pairs x only-larger flag x {no transform, column order / hide / "
    "insertions}. t and p are recomputed for every selected display column from respondent "
    "masks (column proportion, unweighted or effective base) and scipy.special.stdtr; index "
    "sets are recomputed from the library's own p and t. Non-trivial: N >= 10, >= 3 displayed "
    "columns, at least one finite non-zero t." % len(TEMPLATES))
ASSUMPTIONS = [
    "response builder as in C01; the overlap tensors are overlap[..., s, a, s'] = "
    "W(state(s)=a and s' selected), valid_overlap[..., s, a, s'] = W(state(s)=a and s' "
    "answered), calibrated on tests/fixtures/overlaps/cat-simple-x-mr.json",
    "vectors that are subtotal differences are only checked for the intrinsic relations",
    "the overlap-corrected variant is the library's documented formula evaluated on "
    "respondent-level selected / answered / both counts",
]
TECHNIQUE = "reference-model + intrinsic runtime monitors (t/p from respondent masks, index sets from p/t, symmetry)"
DESIGN_REF = "DESIGN.md 4 C13"
REQUIRED_REACH = ["t_stats", "p_vals", "antisymmetry", "self_zero", "index_sets", "alt_superset",
                  "welch", "overlap_t", "legacy_t_stats", "class:sq_weights", "class:weighted",
                  "class:transformed", "class:subtotal_selected", "class:only_larger=False",
                  "class:only_larger=True", "class:indices_read_first"]
BATCH = 20
RULE = RULE + corpus.RULE_SUFFIX + w4.RULE_SUFFIX
REQUIRED_REACH = list(REQUIRED_REACH) + ["class:corpus", "class:w4"]
TECHNIQUE = TECHNIQUE + corpus.TECHNIQUE_SUFFIX
UNIT_TIMEOUT_S = 40
ALPHAS = [None, [0.05], [0.05, 0.2], [0.3, 0.01], 0.1]


def units(tier, seed):
    n = 400 if tier == "quick" else 20000
    # W1 synthetic surveys, then W3: the fixture corpus under the intrinsic relations
    return [{"i": i, "seed": seed} for i in range(n)] + corpus.units(tier, seed) + w4.units(tier, seed)


def make_case(unit):
    if "corpus" in unit:
        return corpus.make_case(ID, unit)
    if "w4" in unit:
        return w4.make_case(ID, unit)
    i = unit["i"]
    g = gen.G("C13/%s/%s" % (unit["seed"], i))
    mode = MODES[i % len(MODES)]
    j = i // len(MODES)
    template = TEMPLATES[j % len(TEMPLATES)]
    if mode == "overlap":
        template = g.pick(["cat|mr", "cat|mr", "mr|mr", "cat_date|mr", "cat|cat|mr"])
    if mode == "means":
        template = g.pick(["cat|cat", "mr|cat", "cat|cat", "cat|mr", "cat|cat|cat"])
    N = g.pick([12, 20, 30, 45, 60, 80])
    nparts = len(template.split("|"))
    sizes = [g.r.randint(2, 4) for _ in range(nparts)]
    sizes[-1] = g.r.randint(3, 5)
    facets = cases.random_facets(g, template, N, sizes=sizes, p_zero=0.05)
    if facets[-1][0] == "mr":
        v = facets[-1][1]
        # keep MR columns informative: few missing, mixed selection
        for s in range(v.state.shape[1]):
            for k in range(N):
                u = g.r.random()
                v.state[k, s] = sim.MIS if u < 0.1 else (sim.SEL if g.r.random() < 0.2 + 0.15 * s
                                                         else sim.OTH)
    tr = {}
    if g.chance(0.5) and mode != "overlap":
        cases.attach_insertions(g, facets, tr, hide_some=False, disjoint=True)
    measures, numvar = (), None
    if mode == "plain":
        w = g.weights(N, g.pick(["none", "frac", "unit8", "float"]))
    elif mode == "sq_weights":
        w = g.weights(N, "frac")
        measures = ("sq_weights",)
    elif mode == "means":
        w = g.weights(N, g.pick(["none", "frac"]))
        measures = ("mean", "stddev") + (("valid_counts",) if g.chance(0.5) else ())
        numvar = g.num(N, p_missing=0.1)
    else:
        w = g.weights(N, g.pick(["none", "frac"]))
        measures = ("overlap",)
    spec = sim.CubeSpec(facets, w, measures, numvar)
    if g.chance(0.5):
        o = sim.Oracle(spec)
        d = o.ndim - 1
        ids, _ = T.transform_ids(o, d)
        dd = tr.setdefault("columns_dimension", {})
        els = T.random_hides(g, ids, p=0.5, renames=False)
        if els and len(ids) - len(els) >= 2:
            dd["elements"] = els
        order = T.random_order(g, ids, [], [], [], "cols", False, [],
                               kinds=["none", "explicit", "label"], allow_dups=False)
        if order:
            dd["order"] = order
        if not dd:
            del tr["columns_dimension"]
    alpha = ALPHAS[(j // len(TEMPLATES)) % len(ALPHAS)]
    pw = {}
    if alpha is not None:
        pw["alpha"] = alpha
    ol = g.pick([None, True, False])
    if ol is not None:
        pw["only_larger"] = ol
    if pw:
        tr["pairwise_indices"] = pw
    return {"template": template, "spec": sim.spec_to_dict(spec), "transforms": tr,
            "mode": mode, "indices_first": g.chance(0.5),
            "mask_size": cases.mask_size_for(ID, i)}


def alphas_of(tr):
    v = (tr.get("pairwise_indices") or {}).get("alpha")
    if not v:
        return (0.05, None)
    if isinstance(v, float):
        return (v, None)
    if len(v) == 1:
        return (v[0], None)
    return tuple(sorted(v[:2]))


def only_larger_of(tr):
    return (tr.get("pairwise_indices") or {}).get("only_larger", True) is not False


def two_sided_p(t, df):
    with np.errstate(invalid="ignore"):
        return 2 * stdtr(df, -np.abs(t))


def check_case(case):
    if "fixture" in case:
        return corpus.check_case(ID, case)
    if case.get("w4"):
        return w4.check_case(ID, case)
    res = CaseResult()
    L = cases.realize(case)
    o = L.oracle
    tr = case.get("transforms") or {}
    res.descriptor = cases.describe(case, {"mode": case["mode"]})
    res.classes.append("mode=%s" % case["mode"])
    if L.spec.weight is not None:
        res.classes.append("weighted")
    if case["mode"] == "sq_weights":
        res.classes.append("sq_weights")
    if any((tr.get("columns_dimension") or {}).get(x) for x in ("elements", "order")):
        res.classes.append("transformed")
    res.classes.append("only_larger=%s" % only_larger_of(tr))
    parts = read(L.cube, "partitions")
    if not res.check("partitions_readable", parts.ok, "exception/partitions",
                     {"exc": repr(parts.exc)}):
        return res
    nz = False
    ncols = 0
    for t, part in enumerate(parts.value):
        V = expect.SliceView(L, t, part)
        ncols = max(ncols, len(V.cols))
        if case.get("indices_first"):
            # the statistics must be the same whether or not the index sets (which are
            # computed from them) were read before
            res.classes.append("indices_read_first")
            for nm in ("pairwise_indices", "pairwise_indices_alt", "pairwise_means_indices",
                       "pairwise_means_indices_alt", "summary_pairwise_indices"):
                read(part, nm)
        if case["mode"] == "means":
            nz |= _welch(res, L, V, part, tr)
        elif case["mode"] == "overlap":
            nz |= _overlap(res, L, V, part, tr)
        else:
            nz |= _props(res, L, V, part, tr, case["mode"] == "sq_weights")
    res.nontrivial = o.N >= 10 and ncols >= 3 and nz
    return res


# ------------------------------------------------------------------------- proportions test


def _col_base(V, r, c, effective):
    """Unweighted column base of cell (r, c), or the effective base (sum w)^2 / sum w^2."""
    o = V.o
    sel = V.sel(r, c)
    if V.is_diff(c):
        return float("nan")
    bm = expect._union_mask(o, sel, (V.R,), [d for d in sel if d != V.R])
    if not effective:
        return float(bm.sum())
    w = o.w[bm]
    s2 = float((w * w).sum())
    return float(w.sum()) ** 2 / s2 if s2 else float("nan")


def _props(res, L, V, part, tr, sq):
    nr, nc = len(V.rows), len(V.cols)
    if nr == 0 or nc == 0:
        return False
    P = V.proportions("col")
    B = np.array([[_col_base(V, r, c, sq) for c in V.cols] for r in V.rows])
    judged_row = np.array([not V.is_diff(r) for r in V.rows], dtype=bool)
    judged_col = np.array([not V.is_diff(c) for c in V.cols], dtype=bool)
    a1, a2 = alphas_of(tr)
    ol = only_larger_of(tr)
    tmats, pmats = [], []
    nz = False
    for a in range(nc):
        gt = read(part, "pairwise_significance_t_stats", a)
        gp = read(part, "pairwise_significance_p_vals", a)
        if not res.check("t_stats", gt.ok and gp.ok, "exception/pairwise", {
                "t": repr(gt)[:200], "p": repr(gp)[:200]}):
            return nz
        t_ = np.asarray(gt.value, dtype=float)
        p_ = np.asarray(gp.value, dtype=float)
        if not res.check("t_stats", t_.shape == (nr, nc) and p_.shape == (nr, nc),
                         "shape/pairwise", {"got": list(t_.shape), "exp": [nr, nc]}):
            return nz
        tmats.append(t_)
        pmats.append(p_)
        if V.is_sub(V.cols[a]):
            res.classes.append("subtotal_selected")
        with np.errstate(divide="ignore", invalid="ignore"):
            pa, na = P[:, [a]], B[:, [a]]
            var = P * (1 - P) / B + pa * (1 - pa) / na
            et = (P - pa) / np.sqrt(var)
            df = B + na - 2
            ep = two_sided_p(et, df)
        m = judged_row[:, None] & judged_col[None, :] & judged_col[a]
        if V.inexact:
            # 0/0 cells (both proportions 0 or 1) are decided by rounding in the oracle's
            # own sums: not judged with weights that are not exactly representable
            with np.errstate(invalid="ignore"):
                zero = np.nan_to_num(var, nan=0.0) <= 1e-12
                # x/0 with x != 0 is a legitimate +/-inf (or 1e8 after rounding); 0/0 is not
                big = zero & (np.abs(P - pa) < 1e-9) & np.isfinite(t_) & (np.abs(t_) > 1)
                if big.any():
                    res.observations["0/0 pairwise cell reported with |t| > 1 (inexact "
                                     "weights)"] += int(big.sum())
                m = m & ~zero
        ok, det = cmp.same(np.where(m, t_, 0), np.where(m, et, 0), rtol=1e-8, atol=1e-10)
        res.check("t_stats", ok, "t_stats%s" % ("/sq_weights" if sq else ""), det)
        ok, det = cmp.same(np.where(m, p_, 0), np.where(m, ep, 0), rtol=1e-7, atol=1e-10)
        res.check("p_vals", ok, "p_vals%s" % ("/sq_weights" if sq else ""), det)
        fin = np.isfinite(t_) & (t_ != 0)
        nz |= bool(fin.any())
        # self comparison
        sc = t_[:, a]
        res.check("self_zero", bool(np.all((sc == 0) | np.isnan(sc))), "self/t_not_zero",
                  {"col": a, "t": sc.tolist()})
    _intrinsic(res, part, tmats, pmats, a1, a2, ol, nr, nc, "pairwise_indices",
               "pairwise_indices_alt")
    _legacy(res, part, V, P, B, sq)
    return nz


def _intrinsic(res, part, tmats, pmats, a1, a2, ol, nr, nc, name, name_alt):
    # antisymmetry of t, symmetry of p
    bad = None
    for a in range(nc):
        for b in range(a + 1, nc):
            x, y = tmats[a][:, b], tmats[b][:, a]
            m = np.isfinite(x) & np.isfinite(y)
            if not np.allclose(x[m], -y[m], rtol=1e-9, atol=1e-12):
                bad = bad or {"a": a, "b": b, "t_ab": x.tolist(), "t_ba": y.tolist()}
            px, py = pmats[a][:, b], pmats[b][:, a]
            m = np.isfinite(px) & np.isfinite(py)
            if not np.allclose(px[m], py[m], rtol=1e-9, atol=1e-12):
                bad = bad or {"a": a, "b": b, "p_ab": px.tolist(), "p_ba": py.tolist()}
    res.check("antisymmetry", bad is None, "antisymmetry", bad)
    # index sets
    for attr, alpha in ((name, a1), (name_alt, a2)):
        got = read(part, attr)
        if alpha is None:
            res.check("index_sets", got.ok and got.value is None, "index_sets/%s/none" % attr,
                      {"got": repr(got)[:200]})
            continue
        if not res.check("index_sets", got.ok, "exception/%s" % attr, {"exc": repr(got.exc)}):
            continue
        g = np.asarray(got.value, dtype=object)
        if g.size == 0 and nr * nc == 0:
            continue
        if not res.check("index_sets", g.shape == (nr, nc), "shape/%s" % attr,
                         {"got": list(g.shape), "exp": [nr, nc]}):
            continue
        bad = None
        for r in range(nr):
            for a in range(nc):
                with np.errstate(invalid="ignore"):
                    sig = pmats[a][r, :] < alpha
                    if ol:
                        sig = sig & (tmats[a][r, :] < 0)
                exp = set(int(b) for b in np.where(sig)[0] if b != a)
                gs = set(int(x) for x in g[r, a])
                if a in gs:
                    bad = bad or {"at": [r, a], "why": "contains itself", "got": sorted(gs)}
                elif gs != exp:
                    bad = bad or {"at": [r, a], "got": sorted(gs), "exp": sorted(exp),
                                  "alpha": alpha, "only_larger": ol}
        res.check("index_sets", bad is None, "index_sets/%s" % attr, bad)
    g1, g2 = read(part, name), read(part, name_alt)
    if a2 is not None and g1.ok and g2.ok and g2.value is not None:
        A, Bm = np.asarray(g1.value, dtype=object), np.asarray(g2.value, dtype=object)
        if A.shape == Bm.shape and A.ndim == 2:
            ok = all(set(A[r, c]) <= set(Bm[r, c]) for r in range(A.shape[0])
                     for c in range(A.shape[1]))
            res.check("alt_superset", ok, "alt_not_superset/%s" % name, None)


def _legacy(res, part, V, P, B, sq):
    """pairwise_significance_tests[i].t_stats: a second observation point of the statistic."""
    got = read(part, "pairwise_significance_tests")
    if not got.ok:
        res.check("legacy_t_stats", False, "legacy/exception", {"exc": repr(got.exc)})
        return
    nr, nc = len(V.rows), len(V.cols)
    if V.row_type != "CAT" or nr == 0 or nc == 0:
        return  # the legacy accessor needs a 1-D columns base
    judged_row = np.array([not V.is_diff(r) for r in V.rows], dtype=bool)
    judged_col = np.array([not V.is_diff(c) for c in V.cols], dtype=bool)
    for a, test in enumerate(got.value[:nc]):
        gt = read(test, "t_stats")
        if not gt.ok:
            res.check("legacy_t_stats", False, "legacy/t_stats/exception",
                      {"exc": repr(gt.exc)})
            continue
        t_ = np.asarray(gt.value, dtype=float)
        with np.errstate(divide="ignore", invalid="ignore"):
            pa, na = P[:, [a]], B[:, [a]]
            et = (P - pa) / np.sqrt(P * (1 - P) / B + pa * (1 - pa) / na)
        m = judged_row[:, None] & judged_col[None, :] & judged_col[a]
        if V.inexact:
            with np.errstate(invalid="ignore", divide="ignore"):
                m = m & ~(np.nan_to_num(P * (1 - P) / B + pa * (1 - pa) / na, nan=0.0) <= 1e-12)
        if t_.shape != et.shape:
            res.check("legacy_t_stats", False, "legacy/t_stats/shape", {"got": list(t_.shape)})
            continue
        ok, det = cmp.same(np.where(m, t_, 0), np.where(m, et, 0), rtol=1e-8, atol=1e-10)
        res.check("legacy_t_stats", ok, "legacy/t_stats%s" % ("/sq_weights" if sq else ""), det)


# ---------------------------------------------------------------------------------- Welch


def _welch(res, L, V, part, tr):
    o = V.o
    nr, nc = len(V.rows), len(V.cols)
    if nr == 0 or nc == 0:
        return False
    mean = np.full((nr, nc), np.nan)
    var = np.full((nr, nc), np.nan)
    n = np.full((nr, nc), np.nan)
    base_cell = np.zeros((nr, nc), dtype=bool)
    for i, r in enumerate(V.rows):
        for j, c in enumerate(V.cols):
            if V.is_sub(r) or V.is_sub(c):
                continue
            base_cell[i, j] = True
            sel = V.sel(r, c)
            mean[i, j] = o.numeric(sel, "mean")
            sd = o.numeric(sel, "stddev")
            var[i, j] = sd * sd
            n[i, j] = o.numeric(sel, "valid_u") if o.xok is not None else o.total(sel, (), False)
    a1, a2 = alphas_of(tr)
    ol = only_larger_of(tr)
    tmats, pmats = [], []
    nz = False
    for a in range(nc):
        gt = read(part, "pairwise_significance_means_t_stats", a)
        gp = read(part, "pairwise_significance_means_p_vals", a)
        if not res.check("welch", gt.ok and gp.ok, "exception/pairwise_means",
                         {"t": repr(gt)[:200], "p": repr(gp)[:200]}):
            return nz
        t_, p_ = np.asarray(gt.value, dtype=float), np.asarray(gp.value, dtype=float)
        if not res.check("welch", t_.shape == (nr, nc), "shape/pairwise_means",
                         {"got": list(t_.shape)}):
            return nz
        tmats.append(t_)
        pmats.append(p_)
        with np.errstate(divide="ignore", invalid="ignore"):
            ma, va, na = mean[:, [a]], var[:, [a]], n[:, [a]]
            se2 = var / n + va / na
            et = (mean - ma) / np.sqrt(se2)
            df = se2 ** 2 / ((var / n) ** 2 / (n - 1) + (va / na) ** 2 / (na - 1))
            ep = two_sided_p(et, df)
        if V.is_sub(V.cols[a]):
            et[:] = np.nan
            ep[:] = np.nan
        et[~base_cell] = np.nan
        ep[~base_cell] = np.nan
        ok, det = cmp.same(t_, et, rtol=1e-8, atol=1e-10)
        res.check("welch", ok, "welch/t_stats", det)
        ok, det = cmp.same(p_, ep, rtol=1e-7, atol=1e-10)
        res.check("welch", ok, "welch/p_vals", det)
        nz |= bool((np.isfinite(t_) & (t_ != 0)).any())
    _intrinsic(res, part, tmats, pmats, a1, a2, ol, nr, nc, "pairwise_means_indices",
               "pairwise_means_indices_alt")
    return nz


# -------------------------------------------------------------------------------- overlaps


def _overlap(res, L, V, part, tr):
    o = V.o
    nr, nc = len(V.rows), len(V.cols)
    if nr == 0 or nc == 0 or V.col_role != "mr":
        return False
    mrv = o.facets[V.C][1]
    w = o.w
    # respondents of the table: restricted to the table element for 3-D, valid on rows
    tm = np.ones(o.N, dtype=bool)
    if V.fixed:
        trole, tvar = o.facets[0]
        tm &= o._cat_mask(tvar, V.fixed[0]) if trole == "cat" else (
            tvar.state[:, V.fixed[0]] == sim.SEL)
    rrole, rvar = o.facets[V.R]
    P = V.proportions("col")
    a1, a2 = alphas_of(tr)
    ol = only_larger_of(tr)
    tmats, pmats = [], []
    nz = False
    for a in range(nc):
        gt = read(part, "pairwise_significance_t_stats", a)
        gp = read(part, "pairwise_significance_p_vals", a)
        if not res.check("overlap_t", gt.ok and gp.ok, "exception/overlap",
                         {"t": repr(gt)[:200], "p": repr(gp)[:200]}):
            return nz
        t_, p_ = np.asarray(gt.value, dtype=float), np.asarray(gp.value, dtype=float)
        if not res.check("overlap_t", t_.shape == (nr, nc), "shape/overlap",
                         {"got": list(t_.shape), "exp": [nr, nc]}):
            return nz
        tmats.append(t_)
        pmats.append(p_)
        et = np.full((nr, nc), np.nan)
        ep = np.full((nr, nc), np.nan)
        judged = np.ones((nr, nc), dtype=bool)
        ia = V.cols[a]
        for i, r in enumerate(V.rows):
            if V.is_sub(r):
                judged[i, :] = False  # insertion rows use summed overlaps: intrinsic only
                continue
            if rrole == "mr":
                rm = tm & (rvar.state[:, r] != sim.MIS)
            else:
                rm = tm & o._cat_valid(rvar)
            for j, b in enumerate(V.cols):
                if b == ia:
                    et[i, j], ep[i, j] = 0.0, 0.0
                    continue
                sa, sb = mrv.state[:, ia], mrv.state[:, b]
                Sa = w[rm & (sa == sim.SEL)].sum()
                Sb = w[rm & (sb == sim.SEL)].sum()
                Sab = w[rm & (sa == sim.SEL) & (sb == sim.SEL)].sum()
                Na = w[rm & (sa != sim.MIS)].sum()
                Nb = w[rm & (sb != sim.MIS)].sum()
                Nab = w[rm & (sa != sim.MIS) & (sb != sim.MIS)].sum()
                with np.errstate(divide="ignore", invalid="ignore"):
                    pa, pb, pab = np.float64(Sa) / Na, np.float64(Sb) / Nb, np.float64(Sab) / Nab
                    df = Na + Nb - Nab
                    x = (P[i, j] - P[i, a]) / np.sqrt(
                        1 / np.float64(df) * (pa * (1 - pa) + pb * (1 - pb) + 2 * pa * pb - 2 * pab))
                    et[i, j] = x
                    ep[i, j] = two_sided_p(x, df - 2)
        ok, det = cmp.same(np.where(judged, t_, 0), np.where(judged, et, 0), rtol=1e-8,
                           atol=1e-10)
        res.check("overlap_t", ok, "overlap/t_stats", det)
        ok, det = cmp.same(np.where(judged, p_, 0), np.where(judged, ep, 0), rtol=1e-7,
                           atol=1e-10)
        res.check("overlap_t", ok, "overlap/p_vals", det)
        nz |= bool((np.isfinite(t_) & (t_ != 0)).any())
        sc = t_[:, a]
        res.check("self_zero", bool(np.all((sc == 0) | np.isnan(sc))), "overlap/self_t_not_zero",
                  {"col": a, "t": sc.tolist()})
    _intrinsic(res, part, tmats, pmats, a1, a2, ol, nr, nc, "pairwise_indices",
               "pairwise_indices_alt")
    return nz
