"""C14 - scale mean, median, standard deviation and error from category numeric values (R)."""

import math

import numpy as np

from .. import cases, cmp, corpus, gen, sim, expect, w4
from ..harness import CaseResult
from ..probe import read

ID = "C14"
TITLE = "Scale mean, median, standard deviation and error from category numeric values"
TEMPLATES = ["cat|cat", "cat|cat", "cat|cat_date", "cat_date|cat", "mr|cat", "cat|mr",
             "cai|cac", "cac|cai", "cat", "cat", "cat_date", "cat|cat|cat", "mr|cat|cat",
             "cat|cai|cac", "logical|cat", "cat|binned", "cat", "cat_date"]
MODES = ["random", "random", "median_trap", "no_values", "sparse", "offset", "one_value",
         "near_half", "unvalued_group"]
RULE = (
    "W1 synthetic surveys over %d templates x {unweighted, integer weights incl. 0, "
    "fractional weights (mean/stddev/stderr only)} x numeric-value assignments {partial, "
    "repeated, negative, unsorted, none} x {random data, 'median trap': exactly half of a "
    "vector's respondents up to a category that is followed, in value order, by categories "
    "without respondents, sparse vectors without valued respondents, a group answering only "
    "several value-less categories with shares not adding up to exactly 1.0}; with sum subtotals. "
    "Expected statistics from the individual respondents' numeric values. Non-trivial: "
    "N >= 5, at least two distinct numeric values carried by respondents." % len(TEMPLATES))
ASSUMPTIONS = [
    "the median is compared for integer counts only (unweighted or integer weights), as the "
    "statement says",
    "difference vectors are not judged (no base in their own direction)",
    "the overall *_margin scalars are judged for categorical x categorical slices only; for "
    "array/MR opposing dimensions the library documents them as a stop-gap",
]
TECHNIQUE = "reference-model runtime monitor (respondent-level scale statistics)"
DESIGN_REF = "DESIGN.md 4 C14"
WEIGHTS = ["none", "ints", "frac", "none", "float", "scales", "tiny"]
REQUIRED_REACH = ["scale_mean", "scale_stddev", "scale_stderr", "scale_median", "margins",
                  "strand_scale", "none_when_no_values", "class:median_exact_half",
                  "class:median_almost_half",
                  "class:subtotal_vector", "class:vector_without_valued_respondents"]
BATCH = 40
RULE = RULE + corpus.RULE_SUFFIX + w4.RULE_SUFFIX
REQUIRED_REACH = list(REQUIRED_REACH) + ["class:corpus", "class:w4"]
TECHNIQUE = TECHNIQUE + corpus.TECHNIQUE_SUFFIX


def units(tier, seed):
    n = 1000 if tier == "quick" else 30000
    # W1 synthetic surveys, then W3: the fixture corpus under the intrinsic relations
    return [{"i": i, "seed": seed} for i in range(n)] + corpus.units(tier, seed) + w4.units(tier, seed)


def make_case(unit):
    if "corpus" in unit:
        return corpus.make_case(ID, unit)
    if "w4" in unit:
        return w4.make_case(ID, unit)
    i = unit["i"]
    g = gen.G("C14/%s/%s" % (unit["seed"], i))
    template = TEMPLATES[i % len(TEMPLATES)]
    j = i // len(TEMPLATES)
    wmode = WEIGHTS[j % len(WEIGHTS)]
    mode = MODES[gen.stratum(ID, i, 1, len(MODES))]
    if mode == "offset" and wmode in ("tiny", "scales", "float"):
        wmode = "frac"  # (rounding noise of 1e8-sized values over sqrt of 1e-12-sized margins)
    N = g.pick([6, 8, 10, 12, 16, 20, 30, 40])
    nparts = len(template.split("|"))
    sizes = [g.r.randint(2, 5) for _ in range(nparts)]
    numeric = "none" if mode == "no_values" else g.pick(["some", "all", "some"])
    facets = cases.random_facets(g, template, N, sizes=sizes, p_zero=0.3 if mode == "sparse"
                                 else 0.15, numeric=numeric)
    if mode == "offset":
        # numeric values far from zero relative to their spread (year-like or id-like codes):
        # the deviation must be formed before squaring
        off = g.pick([1e6, 1e8])
        for role, var in facets:
            if role in ("cat", "ca_cats"):
                for c in var.cats:
                    if c.get("numeric_value") is not None:
                        c["numeric_value"] = c["numeric_value"] + off
    if mode == "one_value":
        # every valued respondent of the scale variable sits on one category: the spread is
        # exactly zero, whatever the weights
        lf_ = cases.library_order_facets(facets)
        role_, var_ = lf_[-1]
        if role_ == "cat":
            valued = [k for k, c in enumerate(var_.cats)
                      if not c.get("missing") and c.get("numeric_value") is not None]
            if valued:
                k0 = g.pick(valued)
                var_.ans = np.array([k0 if a in valued else a for a in var_.ans])
    if mode == "unvalued_group":
        # one group of the other variable answers only categories without a numeric value, spread
        # unevenly over several of them: its share of valued answers is exactly zero although its
        # proportions do not add up to exactly 1.0 - the statistic of that vector is undefined
        lf_ = cases.library_order_facets(facets)
        if len(lf_) >= 2 and lf_[-1][0] == "cat" and lf_[-2][0] == "cat":
            sv, gv = lf_[-1][1], lf_[-2][1]
            valid = [k for k, c in enumerate(sv.cats) if not c.get("missing")]
            if len(valid) >= 3:
                blank = g.r.sample(valid, len(valid) - 1 if len(valid) < 5 else 3)
                for k in blank:
                    sv.cats[k]["numeric_value"] = None
                gvalid = [k for k, c in enumerate(gv.cats) if not c.get("missing")]
                k0 = g.pick(gvalid)
                # counts whose shares do not add up to exactly 1.0 in binary floating point
                # (1/6 + 4/6 + 1/6 = 1 - 1.1e-16), when the group can be given that many members
                pat = g.pick([(1, 4, 1), (2, 3, 1), (3, 2, 2), (1, 6, 2), (4, 1, 1)])
                seq = [blank[0]] * pat[0] + [blank[1]] * pat[1] + [blank[-1]] * pat[2]
                members = [n for n in range(len(sv.ans)) if gv.ans[n] == k0]
                others = [k for k in gvalid if k != k0]
                if others and len(sv.ans) > len(seq):
                    rest = [n for n in range(len(sv.ans)) if n not in members]
                    g.r.shuffle(rest)
                    while len(members) < len(seq) and rest:
                        members.append(rest.pop())
                    gans = np.array(gv.ans)
                    for n in members[len(seq):]:
                        gans[n] = others[0]
                    members = members[:len(seq)]
                    for n in members:
                        gans[n] = k0
                    gv.ans = gans
                ans = np.array(sv.ans)
                for q, n in enumerate(members):
                    ans[n] = seq[q % len(seq)]
                sv.ans = ans
    if mode in ("median_trap", "near_half"):
        _median_trap(g, facets)
    if mode == "sparse":
        cases.entangle_some(g, facets)
    tr = {}
    if g.chance(0.5):
        cases.attach_insertions(g, facets, tr, allow_diff=g.chance(0.3), hide_some=False)
    if mode == "near_half":
        # integer weights in the millions, one respondent weighing one unit more: the lower
        # half holds 50.000002 % of the weight - not a tie, the median is the lower value
        wmode = "ints"
        w = np.full(N, float(2 ** 20))
        w[g.r.randrange(N)] += 1.0
    elif wmode == "ints":
        w = np.array([float(g.r.choice([0, 1, 1, 2, 3])) for _ in range(N)])
    else:
        w = g.weights(N, wmode)
    spec = sim.CubeSpec(facets, w, ())
    return {"template": template, "spec": sim.spec_to_dict(spec), "transforms": tr,
            "mode": mode, "wmode": wmode, "mask_size": cases.mask_size_for(ID, i)}


def _median_trap(g, facets):
    """Half of the respondents at one value, the rest above a gap of empty categories."""
    lf = cases.library_order_facets(facets)
    role, var = lf[-1]
    if role not in ("cat", "ca_cats"):
        return
    cats = var.cats
    valid = [k for k, c in enumerate(cats) if not c.get("missing")]
    if len(valid) < 3:
        return
    vals = g.r.sample([1, 2, 3, 5, 8, 10, -1, 4], len(valid))
    for k, v in zip(valid, vals):
        cats[k]["numeric_value"] = v
    by_value = sorted(valid, key=lambda k: cats[k]["numeric_value"])
    lo = by_value[g.r.randrange(0, len(by_value) - 2)]
    hi_pos = by_value.index(lo) + 2  # skip at least one category in value order
    hi = by_value[g.r.randrange(hi_pos, len(by_value))]
    ans = var.ans
    if ans.ndim == 1:
        n = len(ans) - len(ans) % 2
        ans[:n // 2] = lo
        ans[n // 2:n] = hi
        if len(ans) % 2:
            ans[-1] = [k for k, c in enumerate(cats) if c.get("missing")][0] if any(
                c.get("missing") for c in cats) else lo
    else:
        for s in range(ans.shape[1]):
            n = ans.shape[0] - ans.shape[0] % 2
            ans[:n // 2, s] = lo
            ans[n // 2:n, s] = hi


# --------------------------------------------------------------------------------- oracle


def vector_stats(values, counts, integer):
    """(mean, sd, median, valued_count) of numeric `values` with respondent counts."""
    pairs = [(v, c) for v, c in zip(values, counts) if v is not None and not math.isnan(v)]
    W = sum(c for _, c in pairs)
    if W <= 0:
        return float("nan"), float("nan"), float("nan"), W
    mean = sum(v * c for v, c in pairs) / W
    var = sum(c * (v - mean) ** 2 for v, c in pairs) / W
    med = float("nan")
    if integer:
        # the median of the respondents listed one by one (count c = c respondents), found
        # from cumulative counts so that counts in the millions need no list
        order = sorted((v, int(round(c))) for v, c in pairs if int(round(c)) > 0)
        m = sum(c for _, c in order)

        def at(idx):
            cum = 0
            for v, c in order:
                cum += c
                if idx < cum:
                    return v

        if m:
            med = at(m // 2) if m % 2 else (at(m // 2 - 1) + at(m // 2)) / 2.0
    return mean, math.sqrt(max(var, 0.0)), med, W


def _values(o, d):
    role, var = o.facets[d]
    if role in ("cat", "ca_cats") and getattr(var, "kind", "cat") not in (
            "text", "datetime", "binned"):
        return [c.get("numeric_value") if c.get("numeric_value") is not None else float("nan")
                for c in var.valid_cats]
    return [float("nan")] * o.n_valid(d)


def check_case(case):
    if "fixture" in case:
        return corpus.check_case(ID, case)
    if case.get("w4"):
        return w4.check_case(ID, case)
    res = CaseResult()
    L = cases.realize(case)
    o = L.oracle
    nd = o.ndim
    res.descriptor = cases.describe(case, {"mode": case["mode"], "wmode": case["wmode"]})
    integer = case["wmode"] in ("none", "ints")
    parts = read(L.cube, "partitions")
    if not res.check("partitions_readable", parts.ok, "exception/partitions",
                     {"exc": repr(parts.exc)}):
        return res
    distinct = set()
    for t, part in enumerate(parts.value):
        if nd == 1:
            _strand(res, L, part, integer, distinct)
        else:
            _slice(res, L, t, part, integer, distinct)
    res.nontrivial = o.N >= 5 and len(distinct) >= 2
    return res


def _slice(res, L, t, part, integer, distinct):
    V = expect.SliceView(L, t, part)
    o = V.o
    nr, nc = len(V.rows), len(V.cols)
    for orient, elems, oelems_n, vdim, margin_free in (
            ("rows", V.rows, o.n_valid(V.C), V.C, (V.C,)),
            ("columns", V.cols, o.n_valid(V.R), V.R, (V.R,))):
        values = _values(o, vdim)
        has_values = not all(math.isnan(v) for v in values)
        attrs = {k: "%s_scale_%s" % (orient, k) for k in
                 ("mean", "mean_stddev", "mean_stderr", "median")}
        got = {k: read(part, a) for k, a in attrs.items()}
        if not has_values:
            for k, g in got.items():
                res.check("none_when_no_values", g.ok and g.value is None,
                          "none_expected/%s" % attrs[k], {"got": repr(g)[:200]})
            continue
        otype = V.col_type if orient == "rows" else V.row_type
        exp = {k: [] for k in attrs}
        judged = []
        for e in elems:
            if V.is_diff(e):
                judged.append(False)
                for k in exp:
                    exp[k].append(float("nan"))
                continue
            judged.append(True)
            if V.is_sub(e):
                res.classes.append("subtotal_vector")
            counts = []
            for c in range(oelems_n):
                sel = V.sel(e, c) if orient == "rows" else V.sel(c, e)
                counts.append(o.count(sel, V.weighted))
            mean, sd, med, W = vector_stats(values, counts, integer)
            if W <= 0:
                res.classes.append("vector_without_valued_respondents")
            for v, c in zip(values, counts):
                if c > 0 and not math.isnan(v):
                    distinct.add(v)
            # exact-half detection for the evidence
            if integer and W > 0:
                order = sorted((v, c) for v, c in zip(values, counts) if not math.isnan(v))
                cum = 0
                for v, c in order:
                    cum += c
                    if cum * 2 == W:
                        res.classes.append("median_exact_half")
                    elif 0 < abs(cum * 2 - W) <= 1e-5 * W:
                        res.classes.append("median_almost_half")
            # margin of the vector (all opposing elements, valued or not)
            sel0 = V.sel(e, 0) if orient == "rows" else V.sel(0, e)
            margin = o.base(sel0, margin_free, V.weighted)
            exp["mean"].append(mean)
            exp["mean_stddev"].append(sd)
            exp["mean_stderr"].append(sd / math.sqrt(margin) if margin and margin > 0
                                      and not math.isnan(sd) else float("nan"))
            exp["median"].append(med)
        judged = np.array(judged, dtype=bool)
        for k, mon in (("mean", "scale_mean"), ("mean_stddev", "scale_stddev"),
                       ("mean_stderr", "scale_stderr"), ("median", "scale_median")):
            g = got[k]
            if k == "median" and not integer:
                continue
            if k == "mean_stderr" and otype != "CAT":
                # the margin is undefined across an array/MR dimension: None expected
                res.check("scale_stderr", g.ok and g.value is None,
                          "stderr_none_expected/%s" % attrs[k], {"got": repr(g)[:200]})
                continue
            if not res.check(mon, g.ok and g.value is not None, "exception_or_none/%s" %
                             attrs[k], {"got": repr(g)[:200]}):
                continue
            ga = np.asarray(g.value, dtype=float)
            e = np.array(exp[k], dtype=float)
            if not res.check(mon, ga.shape == e.shape, "shape/%s" % attrs[k],
                             {"got": list(ga.shape), "exp": list(e.shape)}):
                continue
            # a root turns the last-bit error of a mean of values around 1e8 (1e-8) into a
            # spread of that size: absolute tolerance scaled with the magnitude of the values
            atol = 1e-9
            if k in ("mean_stddev", "mean_stderr"):
                big = max([abs(v) for v in _values(o, vdim) if not math.isnan(v)] + [1.0])
                atol = max(1e-7, 4e-15 * big)  # roots of rounding residues (see C11)
            ok, det = cmp.same(np.where(judged, ga, 0), np.where(judged, e, 0), rtol=1e-9,
                               atol=atol)
            cfg = ""
            if not ok and k == "median":
                cfg = "/exact_half" if "median_exact_half" in res.classes else ""
            res.check(mon, ok, "%s/%s%s" % (mon, attrs[k], cfg), det)
    # overall margins: categorical x categorical only
    if V.row_type == "CAT" and V.col_type == "CAT":
        for attr, vdim, free in (("columns_scale_mean_margin", V.R, (V.C,)),
                                 ("rows_scale_mean_margin", V.C, (V.R,)),
                                 ("columns_scale_median_margin", V.R, (V.C,)),
                                 ("rows_scale_median_margin", V.C, (V.R,))):
            values = _values(o, vdim)
            g = read(part, attr)
            if all(math.isnan(v) for v in values):
                res.check("none_when_no_values", g.ok and g.value is None,
                          "none_expected/%s" % attr, {"got": repr(g)[:200]})
                continue
            counts = []
            for e in range(o.n_valid(vdim)):
                sel = V.sel(e, 0) if vdim == V.R else V.sel(0, e)
                counts.append(o.base(sel, free, V.weighted))
            mean, sd, med, W = vector_stats(values, counts, integer)
            if "median" in attr:
                if not integer:
                    continue
                expv = None if W <= 0 else med
            else:
                expv = mean
            if expv is None:
                res.check("margins", g.ok and g.value is None, "margins/%s/none" % attr,
                          {"got": repr(g)[:200]})
                continue
            ok, det = cmp.scalar_same(g.value if g.ok else None, expv, rtol=1e-9, atol=1e-9)
            res.check("margins", g.ok and ok, "margins/%s" % attr,
                      det if g.ok else {"exc": repr(g.exc)})


def _strand(res, L, part, integer, distinct):
    o = L.oracle
    values = _values(o, 0)
    weighted = L.spec.weight is not None
    counts = [o.count({0: e}, weighted) for e in range(o.n_valid(0))]
    names = {"mean": "scale_mean", "sd": "scale_std_dev", "se": "scale_std_err",
             "median": "scale_median"}
    got = {k: read(part, a) for k, a in names.items()}
    if all(math.isnan(v) for v in values):
        for k, g in got.items():
            res.check("none_when_no_values", g.ok and g.value is None,
                      "strand/none_expected/%s" % names[k], {"got": repr(g)[:200]})
        return
    mean, sd, med, W = vector_stats(values, counts, integer)
    for v, c in zip(values, counts):
        if c > 0 and not math.isnan(v):
            distinct.add(v)
    if W <= 0:
        res.classes.append("vector_without_valued_respondents")
        for k, g in got.items():
            if k == "median" and not integer:
                continue
            res.check("strand_scale", g.ok and g.value is None,
                      "strand/none_expected_without_respondents/%s" % names[k],
                      {"got": repr(g)[:200]})
        return
    exp = {"mean": mean, "sd": sd, "se": sd / math.sqrt(W), "median": med}
    for k, g in got.items():
        if k == "median" and not integer:
            continue
        ok, det = cmp.scalar_same(g.value if g.ok else None, exp[k], rtol=1e-9, atol=1e-9)
        res.check("strand_scale", g.ok and ok, "strand/%s" % names[k],
                  det if g.ok else {"exc": repr(g.exc)})
