"""C15 - share of sum divides by the base-cell total of the row, column or table (R + I)."""

import math

import numpy as np

from .. import cases, cmp, corpus, gen, sim, expect
from ..harness import CaseResult
from ..probe import read

ID = "C15"
TITLE = "Share of sum divides by the base-cell total of the row, column or table"
TEMPLATES = ["numarr|cat", "numarr|mr", "numarr", "cat|cat", "cat|cat", "cat|mr", "mr|cat",
             "cat", "cat_date|cat", "cat|cat_date", "numarr|cat_date", "cai|cac", "mr",
             "cat|cat|cat", "mr|cat|cat", "mr|mr"]
RULE = (
    "W1 synthetic surveys with a sum measure: numeric-array rows and categorical / MR rows "
    "(%d templates) x weighting x {no insertions, row, column, both; sum and difference "
    "subtotals}, numeric values incl. negative ones and cells without any valid value (NaN "
    "sums). Expected shares from respondent-level sums. Non-trivial: N >= 5, a non-zero "
    "table total and at least one inserted cell (or >= 2 rows and columns without "
    "insertions)." % len(TEMPLATES))
ASSUMPTIONS = [
    "response builder as in C01 (the sum of a cell without valid values is sent as "
    "unavailable)",
    "a subtotal one of whose addend cells has an unavailable sum is not judged (the statement "
    "does not say whether it is unavailable or the sum of the others)",
]
TECHNIQUE = "reference-model + intrinsic runtime monitors (shares from respondent-level sums; additivity)"
DESIGN_REF = "DESIGN.md 4 C15"
WEIGHTS = ["none", "frac", "zeros", "float", "scales", "tiny"]
REQUIRED_REACH = ["share", "shares_add_to_one", "subtotal_share_is_sum_of_addends",
                  "strand_share", "class:inserted_row", "class:inserted_column",
                  "class:intersection", "class:numarr", "class:categorical_rows"]
BATCH = 40
RULE = RULE + corpus.RULE_SUFFIX
REQUIRED_REACH = list(REQUIRED_REACH) + ["class:corpus"]
TECHNIQUE = TECHNIQUE + corpus.TECHNIQUE_SUFFIX


def units(tier, seed):
    n = 1400 if tier == "quick" else 30000
    # W1 synthetic surveys, then W3: the fixture corpus under the intrinsic relations
    return [{"i": i, "seed": seed} for i in range(n)] + corpus.units(tier, seed)


def make_case(unit):
    if "corpus" in unit:
        return corpus.make_case(ID, unit)
    i = unit["i"]
    g = gen.G("C15/%s/%s" % (unit["seed"], i))
    template = TEMPLATES[i % len(TEMPLATES)]
    j = i // len(TEMPLATES)
    wmode = WEIGHTS[j % len(WEIGHTS)]
    N = g.pick([5, 8, 12, 20, 30, 45])
    nparts = len(template.split("|"))
    sizes = [g.r.randint(2, 4) for _ in range(nparts)]
    facets = cases.random_facets(g, template, N, sizes=sizes, p_zero=0.15)
    tr = {}
    which = [("rows",), ("cols",), ("rows", "cols"), ()][gen.stratum(ID, i, 1, 4)]
    if which:
        cases.attach_insertions(g, facets, tr, which=which, hide_some=False)
    w = g.weights(N, wmode)
    if "numarr" in template:
        spec = sim.CubeSpec(facets, w, ("sum",))
    else:
        spec = sim.CubeSpec(facets, w, ("sum",) + (("valid_counts",) if g.chance(0.5) else ()),
                            g.num(N))
    if gen.stratum(ID, i, "hide", 3) == 0:
        # hidden elements: removed from the display, still part of every total
        from .. import transforms as T

        o = sim.Oracle(spec)
        nd = o.ndim
        for key, d in ([("rows_dimension", 0)] if nd == 1 else
                       [("rows_dimension", nd - 2), ("columns_dimension", nd - 1)]):
            ids, _ = T.transform_ids(o, d)
            if ids and g.chance(0.7):
                els = T.random_hides(g, ids, p=1.0, renames=False)
                tr.setdefault(key, {})["elements"] = els
    return {"template": template, "spec": sim.spec_to_dict(spec), "transforms": tr}


def _signed_sum(o, sel):
    """Sum measure of a cell whose elements may be subtotals; None if not judged."""
    dims = sorted(sel)
    tot = 0.0
    unavailable = False

    def rec(k, cur, sign):
        nonlocal tot, unavailable
        if k == len(dims):
            v = o.numeric(dict(cur), "sum")
            if math.isnan(v):
                unavailable = True
            else:
                tot += sign * v
            return
        for sg, b in o._terms(sel[dims[k]]):
            cur[dims[k]] = b
            rec(k + 1, cur, sign * sg)

    rec(0, {}, 1)
    return tot, unavailable


def check_case(case):
    if "fixture" in case:
        return corpus.check_case(ID, case)
    res = CaseResult()
    L = cases.realize(case)
    o = L.oracle
    nd = o.ndim
    res.descriptor = cases.describe(case)
    res.classes.append("numarr" if L.spec.numarr is not None else "categorical_rows")
    parts = read(L.cube, "partitions")
    if not res.check("partitions_readable", parts.ok, "exception/partitions",
                     {"exc": repr(parts.exc)}):
        return res
    good = False
    for t, part in enumerate(parts.value):
        if nd == 1:
            good |= _strand(res, L, part)
        else:
            good |= _slice(res, L, t, part)
    res.nontrivial = o.N >= 5 and good
    return res


def _slice(res, L, t, part):
    V = expect.SliceView(L, t, part)
    o = V.o
    nr, nc = len(V.rows), len(V.cols)
    if nr == 0 or nc == 0:
        return False
    nbr, nbc = o.n_valid(V.R), o.n_valid(V.C)
    base = np.array([[o.numeric(V.sel(r, c), "sum") for c in range(nbc)] for r in range(nbr)])
    sums = np.full((nr, nc), np.nan)
    judged = np.ones((nr, nc), dtype=bool)
    for i, r in enumerate(V.rows):
        for j, c in enumerate(V.cols):
            if V.is_diff(r) or V.is_diff(c):
                continue  # differences of sums are NaN
            v, unavailable = _signed_sum(o, V.sel(r, c))
            if unavailable:
                if V.is_sub(r) or V.is_sub(c):
                    judged[i, j] = False
                continue
            sums[i, j] = v
            kind = ("intersection" if V.is_sub(r) and V.is_sub(c) else "inserted_row"
                    if V.is_sub(r) else "inserted_column" if V.is_sub(c) else "body")
            res.classes.append(kind)

    def rowtot(e):
        """Total of display row e over base columns."""
        tot, n = 0.0, 0
        for c in range(nbc):
            v, un = _signed_sum(o, V.sel(e, c))
            if not un:
                tot += v
                n += 1
        return tot

    def coltot(e):
        tot = 0.0
        for r in range(nbr):
            v, un = _signed_sum(o, V.sel(r, e))
            if not un:
                tot += v
        return tot

    table_total = float(np.nansum(base))
    # a subtotal vector's own total must also be judgeable: all its base cells available
    exp = {"row_share_sum": np.full((nr, nc), np.nan),
           "column_share_sum": np.full((nr, nc), np.nan),
           "total_share_sum": np.full((nr, nc), np.nan)}
    rowjudged = judged.copy()
    coljudged = judged.copy()
    for i, r in enumerate(V.rows):
        if V.is_sub(r) and not V.is_diff(r):
            if any(_signed_sum(o, V.sel(r, c))[1] for c in range(nbc)):
                rowjudged[i, :] = False
    for j, c in enumerate(V.cols):
        if V.is_sub(c) and not V.is_diff(c):
            if any(_signed_sum(o, V.sel(r, c))[1] for r in range(nbr)):
                coljudged[:, j] = False
    with np.errstate(divide="ignore", invalid="ignore"):
        for i, r in enumerate(V.rows):
            rt = rowtot(r) if not V.is_diff(r) else float("nan")
            for j, c in enumerate(V.cols):
                if math.isnan(sums[i, j]):
                    continue
                ct = coltot(c) if not V.is_diff(c) else float("nan")
                exp["row_share_sum"][i, j] = np.float64(sums[i, j]) / np.float64(rt)
                exp["column_share_sum"][i, j] = np.float64(sums[i, j]) / np.float64(ct)
                exp["total_share_sum"][i, j] = np.float64(sums[i, j]) / np.float64(table_total)
    for attr, jm in (("row_share_sum", rowjudged), ("column_share_sum", coljudged),
                     ("total_share_sum", judged)):
        got = read(part, attr)
        if not res.check("share", got.ok, "exception/%s" % attr, {"exc": repr(got.exc)}):
            continue
        g = np.asarray(got.value, dtype=float)
        if not res.check("share", g.shape == (nr, nc), "shape/%s" % attr,
                         {"got": list(g.shape), "exp": [nr, nc]}):
            continue
        e = exp[attr]
        ok, det = cmp.same(np.where(jm, g, 0), np.where(jm, e, 0), rtol=1e-9, atol=1e-12)
        blk = ""
        if not ok and det.get("at") and len(det["at"]) == 2:
            i, j = det["at"]
            blk = "/" + ("intersection" if V.is_sub(V.rows[i]) and V.is_sub(V.cols[j]) else
                         "inserted_row" if V.is_sub(V.rows[i]) else
                         "inserted_column" if V.is_sub(V.cols[j]) else "body")
        res.check("share", ok, "share/%s%s" % (attr, blk), det)
        # intrinsic: base-cell shares add up to one along their direction
        rb = [i for i, e_ in enumerate(V.rows) if not V.is_sub(e_)]
        cb = [j for j, e_ in enumerate(V.cols) if not V.is_sub(e_)]
        full_rows = len(rb) == nbr
        full_cols = len(cb) == nbc
        if attr == "row_share_sum" and full_cols:
            for i in rb:
                s = np.nansum(g[i, cb])
                if not np.all(np.isnan(g[i, cb])) and abs(rowtot(V.rows[i])) > 1e-9:
                    res.check("shares_add_to_one", abs(s - 1) < 1e-9, "sum_to_one/%s" % attr,
                              {"row": i, "sum": float(s)})
        if attr == "column_share_sum" and full_rows:
            for j in cb:
                s = np.nansum(g[rb, j])
                if not np.all(np.isnan(g[rb, j])) and abs(coltot(V.cols[j])) > 1e-9:
                    res.check("shares_add_to_one", abs(s - 1) < 1e-9, "sum_to_one/%s" % attr,
                              {"col": j, "sum": float(s)})
        # intrinsic: the column share of a row subtotal is the sum of its addends' shares
        if attr in ("column_share_sum", "total_share_sum"):
            pos = {e_: i for i, e_ in enumerate(V.rows) if not V.is_sub(e_)}
            for i, r in enumerate(V.rows):
                if V.is_sub(r) and not V.is_diff(r) and all(a in pos for a in r[1]):
                    for j in range(nc):
                        parts_ = [g[pos[a], j] for a in r[1]]
                        if not np.isfinite(g[i, j]) or not all(np.isfinite(x) for x in parts_):
                            continue
                        res.check("subtotal_share_is_sum_of_addends",
                                  abs(g[i, j] - sum(parts_)) < 1e-9,
                                  "additivity/%s/inserted_row" % attr,
                                  {"at": [i, j], "value": float(g[i, j]),
                                   "addends": [float(x) for x in parts_]})
        if attr in ("row_share_sum", "total_share_sum"):
            pos = {e_: j for j, e_ in enumerate(V.cols) if not V.is_sub(e_)}
            for j, c in enumerate(V.cols):
                if V.is_sub(c) and not V.is_diff(c) and all(a in pos for a in c[1]):
                    for i in range(nr):
                        parts_ = [g[i, pos[a]] for a in c[1]]
                        if not np.isfinite(g[i, j]) or not all(np.isfinite(x) for x in parts_):
                            continue
                        res.check("subtotal_share_is_sum_of_addends",
                                  abs(g[i, j] - sum(parts_)) < 1e-9,
                                  "additivity/%s/inserted_column" % attr,
                                  {"at": [i, j], "value": float(g[i, j]),
                                   "addends": [float(x) for x in parts_]})
    return abs(table_total) > 1e-9 and (bool(V.row_subs or V.col_subs)
                                        or (nbr >= 2 and nbc >= 2))


def _div(a, b):
    """IEEE quotient, as for slices: x/0 is +/-inf, 0/0 is NaN (a zero total of signed sums)."""
    with np.errstate(divide="ignore", invalid="ignore"):
        return float(np.float64(a) / np.float64(b))


def _strand(res, L, part):
    o = L.oracle
    tr = L.case.get("transforms") or {}
    subs = expect.resolved_subtotals(o, 0, tr.get("rows_dimension"))
    order = [int(x) for x in read(part, "row_order").value]
    n = o.n_valid(0)
    base = np.array([o.numeric({0: r}, "sum") for r in range(n)])
    total = float(np.nansum(base))
    got = read(part, "share_sum")
    if not res.check("strand_share", got.ok, "exception/strand/share_sum",
                     {"exc": repr(got.exc)}):
        return False
    g = np.asarray(got.value, dtype=float)
    exp, judged = [], []
    for e in order:
        if e >= 0:
            exp.append(_div(base[e], total))
            judged.append(True)
        else:
            s = subs[e + len(subs)]
            vals = [base[a] for a in s["addends"]] + [base[a] for a in s["subtrahends"]]
            if any(math.isnan(v) for v in vals):
                exp.append(float("nan"))
                judged.append(False)
            else:
                v = sum(base[a] for a in s["addends"]) - sum(base[a] for a in s["subtrahends"])
                exp.append(_div(v, total))
                judged.append(True)
    exp, judged = np.array(exp), np.array(judged, dtype=bool)
    if not res.check("strand_share", g.shape == exp.shape, "strand/share_sum/shape",
                     {"got": list(g.shape), "exp": list(exp.shape)}):
        return False
    with np.errstate(invalid="ignore"):
        ok, det = cmp.same(np.where(judged, g, 0), np.where(judged, exp, 0), rtol=1e-9,
                           atol=1e-12)
    res.check("strand_share", ok, "strand/share_sum", det)
    return abs(total) > 1e-9 and n >= 2
