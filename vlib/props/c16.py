"""C16 - column index compares column share with the unconditional row share (R)."""

import numpy as np

from .. import cases, cmp, corpus, gen, sim, expect, w4
from ..harness import CaseResult
from ..probe import read

ID = "C16"
TITLE = "Column index compares column share with the unconditional row share"
TEMPLATES = ["cat|cat", "cat|mr", "mr|cat", "mr|mr", "cat|cat|cat", "cat|cat|mr", "cat|mr|cat",
             "cat|mr|mr", "mr|cat|cat", "mr|cat|mr", "mr|mr|cat", "mr|mr|mr", "cat|cat_date",
             "cat_date|cat", "binned|cat", "cat|text", "logical|mr", "cat|logical"]
RULE = (
    "W1 synthetic surveys over %d CAT/MR templates (2-D and 3-D) x weighting, with heavy "
    "column missingness concentrated in some rows (members of one or two row elements are "
    "forced missing on the column variable with probability 0.7), with and without sum / "
    "difference insertions. Expected: 100 x oracle column proportion / (W(respondents in the "
    "row element) / W(respondents eligible for it)), both regardless of the column answer. "
    "Non-trivial: >= 2 valid elements per dimension, N >= 5 and at least one base cell whose "
    "conditional and unconditional row shares differ (otherwise a baseline from valid answers "
    "only gives the same number)." % len(TEMPLATES))
ASSUMPTIONS = [
    "response builder as in C01 (the baseline reads the response including missing elements)",
    "array (CA / numeric-array) dimensions are outside the property's quantifier",
]
TECHNIQUE = "reference-model runtime monitor (unconditional baseline from respondents)"
DESIGN_REF = "DESIGN.md 4 C16"
WEIGHTS = ["none", "frac", "zeros", "float", "scales", "tiny"]
REQUIRED_REACH = ["column_index", "nan_at_insertions", "class:pair=CATxCAT", "class:pair=CATxMR",
                  "class:pair=MRxCAT", "class:pair=MRxMR", "class:ndim=3", "class:discriminating"]
BATCH = 40
RULE = RULE + corpus.RULE_SUFFIX + w4.RULE_SUFFIX
REQUIRED_REACH = list(REQUIRED_REACH) + ["class:corpus", "class:w4"]
TECHNIQUE = TECHNIQUE + corpus.TECHNIQUE_SUFFIX


def units(tier, seed):
    n = 500 if tier == "quick" else 20000
    # W1 synthetic surveys, then W3: the fixture corpus under the intrinsic relations
    return [{"i": i, "seed": seed} for i in range(n)] + corpus.units(tier, seed) + w4.units(tier, seed)


def make_case(unit):
    if "corpus" in unit:
        return corpus.make_case(ID, unit)
    if "w4" in unit:
        return w4.make_case(ID, unit)
    i = unit["i"]
    g = gen.G("C16/%s/%s" % (unit["seed"], i))
    template = TEMPLATES[i % len(TEMPLATES)]
    j = i // len(TEMPLATES)
    wmode = WEIGHTS[j % len(WEIGHTS)]
    N = g.pick([6, 10, 16, 25, 40, 60, 80])
    nparts = len(template.split("|"))
    sizes = [g.r.randint(2, 4) for _ in range(nparts)]
    facets = cases.random_facets(g, template, N, sizes=sizes, p_zero=0.08)
    # ensure the column variable has a missing category / missing answers to be forced into
    lf = cases.library_order_facets(facets)
    (rrole, rv), (crole, cv) = lf[-2], lf[-1]
    if crole == "cat" and not any(c.get("missing") for c in cv.cats):
        cv.cats.append({"id": 77 if cv.kind not in ("text", "datetime", "binned") else len(cv.cats), "name": "cm_77", "missing": True, "numeric_value": None, "value": {"?": -1}})
        cv.data_order = list(cv.data_order) + [len(cv.cats) - 1]
    for _ in range(g.r.randint(1, 2)):
        _uneven_missing(g, rrole, rv, crole, cv)
    transforms = {}
    if g.chance(0.4):
        cases.attach_insertions(g, facets, transforms, hide_some=False)
    k = gen.stratum(ID, i, "vc", 6)
    if k < 2 and "numarr" not in template:
        # a mean in the response: counts are valid counts (k == 1: a weighted response
        # with unweighted valid counts only - index and baseline come from those alone)
        mset = ("mean", "valid_counts") + (("vc_unweighted_only",) if k == 1 else ())
        spec = sim.CubeSpec(facets, g.weights(N, wmode), mset, g.num(N))
    else:
        spec = sim.CubeSpec(facets, g.weights(N, wmode), ())
    if g.chance(0.45):
        # display transforms: a row whose members all miss the column variable is *pruned*,
        # yet it still belongs to the unconditional baseline of the rows that stay
        from .c05 import add_display_transforms

        add_display_transforms(g, spec, transforms, kinds=["none", "explicit", "label"])
        if g.chance(0.6):
            transforms.setdefault("rows_dimension", {})["prune"] = True
    return {"template": template, "spec": sim.spec_to_dict(spec), "transforms": transforms,
            "mask_size": cases.mask_size_for(ID, i)}


def _uneven_missing(g, rrole, rv, crole, cv):
    N = rv.n
    if rrole == "cat":
        k = g.r.randrange(len(rv.cats))
        members = rv.ans == k
    else:
        members = rv.state[:, g.r.randrange(rv.state.shape[1])] == sim.SEL
    p_hit = g.pick([0.7, 0.7, 1.0])  # 1.0: the whole row element misses the column variable
    hit = np.array([g.r.random() < p_hit for _ in range(N)]) & members
    if crole == "cat":
        miss = [j for j, c in enumerate(cv.cats) if c.get("missing")]
        if miss:
            cv.ans = np.where(hit, miss[0], cv.ans)
    else:
        cv.state[hit, :] = sim.MIS


def check_case(case):
    if "fixture" in case:
        return corpus.check_case(ID, case)
    if case.get("w4"):
        return w4.check_case(ID, case)
    res = CaseResult()
    L = cases.realize(case)
    o = L.oracle
    nd = o.ndim
    res.descriptor = cases.describe(case)
    res.classes.append("pair=%sx%s" % (o.typestr(nd - 2), o.typestr(nd - 1)))
    res.classes.append("ndim=%d" % nd)
    parts = read(L.cube, "partitions")
    if not res.check("partitions_readable", parts.ok, "exception/partitions",
                     {"exc": repr(parts.exc)}):
        return res
    disc = False
    for t, part in enumerate(parts.value):
        disc |= _slice(res, L, t, part)
    if disc:
        res.classes.append("discriminating")
    res.nontrivial = all(o.n_valid(d) >= 2 for d in range(nd)) and o.N >= 5 and disc
    return res


def _uncond_share(V, r):
    """W(belongs to row element r) / W(eligible for it), whatever the column answer."""
    o = V.o
    role, var = o.facets[V.R]
    m = np.ones(o.N, dtype=bool)
    if o.xok is not None:
        # the response's counts are valid counts (a mean is in the response): numerator and
        # baseline alike count the respondents with a valid value of the measured variable
        m &= o.xok
    if V.fixed:
        # restricted to the table element (CAT: T = t; MR: selected item t)
        trole, tvar = o.facets[0]
        tsel = V.fixed[0]
        if trole == "cat":
            m &= o._cat_mask(tvar, tsel)
        else:
            m &= tvar.state[:, tsel] == sim.SEL
    if role == "cat":
        num = m & o._cat_mask(var, r)
        den = m & o._cat_valid(var)
    else:
        num = m & (var.state[:, r] == sim.SEL)
        den = m & (var.state[:, r] != sim.MIS)
    W = float(o.w[den].sum())
    return (float(o.w[num].sum()) / W) if W else float("nan")


def _slice(res, L, t, part):
    V = expect.SliceView(L, t, part)
    nr, nc = len(V.rows), len(V.cols)
    got = read(part, "column_index")
    if not res.check("column_index", got.ok, "exception/column_index", {"exc": repr(got.exc)}):
        return False
    g = np.asarray(got.value, dtype=float)
    if not res.check("column_index", g.shape == (nr, nc), "slice/column_index/shape",
                     {"got": list(g.shape), "exp": [nr, nc]}):
        return False
    exp = np.full((nr, nc), np.nan)
    disc = False
    for i, r in enumerate(V.rows):
        if V.is_sub(r):
            continue
        share = _uncond_share(V, r)
        for j, c in enumerate(V.cols):
            if V.is_sub(c):
                continue
            p = V.proportion(r, c, "col")
            if p != p or share != share or share == 0:
                continue
            exp[i, j] = 100.0 * p / share
            # conditional share of the row among respondents valid on the column dimension
            rb = V.base(r, c, "row", True)
            tb = V.base(r, c, "table", True)
            if tb and abs(rb / tb - share) > 1e-9:
                disc = True
    ins = np.zeros((nr, nc), dtype=bool)
    for i, r in enumerate(V.rows):
        for j, c in enumerate(V.cols):
            ins[i, j] = V.is_sub(r) or V.is_sub(c)
    if ins.any():
        res.check("nan_at_insertions", bool(np.all(np.isnan(g[ins]))),
                  "slice/column_index/insertion_not_nan", {"got": g.tolist()})
    ok, det = cmp.same(np.where(ins, 0, g), np.where(ins, 0, exp), rtol=1e-9, atol=1e-9)
    res.check("column_index", ok, "slice/column_index", det)
    return disc
