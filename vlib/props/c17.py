"""C17 - population estimates scale the right proportion by population and filter share (R)."""

import math

import numpy as np

from .. import cases, cmp, corpus, gen, sim, expect, w4
from ..harness import CaseResult
from ..probe import read

ID = "C17"
TITLE = "Population estimates scale the right proportion by population and filter share"
TEMPLATES = ["cat|cat", "cat_date|cat", "cat|cat_date", "cat_date|cat_date", "cat|mr",
             "mr|cat", "cat_date|mr", "mr|cat_date", "cat", "cat_date", "mr", "cai|cac",
             "cat|cat|cat", "cat|cat_date|cat", "mr|cat|cat_date", "numarr|cat_date", "text|cat"]
Z = 1.959964


def _filter_shapes():
    """(name, extra-result-dict, expected fraction or 'raise')."""
    nan = float("nan")
    return [
        ("absent", {}, 1.0),
        ("old", {"filtered": {"weighted_n": 30}, "unfiltered": {"weighted_n": 120}}, 0.25),
        ("old_float", {"filtered": {"weighted_n": 12.5}, "unfiltered": {"weighted_n": 50.0}},
         0.25),
        ("old_zero_int", {"filtered": {"weighted_n": 0}, "unfiltered": {"weighted_n": 0}}, nan),
        ("old_zero_float", {"filtered": {"weighted_n": 0.0}, "unfiltered": {"weighted_n": 0.0}},
         nan),
        ("old_num_zero_den", {"filtered": {"weighted_n": 5}, "unfiltered": {"weighted_n": 0}},
         nan),
        ("old_null_values", {"filtered": {"weighted_n": None},
                             "unfiltered": {"weighted_n": None}}, 1.0),
        ("old_null_den", {"filtered": {"weighted_n": 3}, "unfiltered": {"weighted_n": None}},
         1.0),
        ("old_empty_dicts", {"filtered": {}, "unfiltered": {}}, 1.0),
        ("old_only_filtered", {"filtered": {"weighted_n": 10}}, 1.0),
        ("new", {"filter_stats": {"filtered_complete": {"weighted": {
            "selected": 30, "other": 90, "missing": 7}}}}, 0.25),
        ("new_overrides_old", {"filter_stats": {"filtered_complete": {"weighted": {
            "selected": 10.0, "other": 30.0, "missing": 0}}},
            "filtered": {"weighted_n": 1}, "unfiltered": {"weighted_n": 2}}, 0.25),
        ("new_cat_date", {"filter_stats": {"is_cat_date": True, "filtered_complete": {
            "weighted": {"selected": 30, "other": 90, "missing": 0}}}}, 1.0),
        ("new_cat_date_false", {"filter_stats": {"is_cat_date": False, "filtered_complete": {
            "weighted": {"selected": 30, "other": 90, "missing": 0}}}}, 0.25),
        ("new_zero", {"filter_stats": {"filtered_complete": {"weighted": {
            "selected": 0, "other": 0, "missing": 3}}}}, nan),
        ("new_zero_float", {"filter_stats": {"filtered_complete": {"weighted": {
            "selected": 0.0, "other": 0.0, "missing": 0.0}}}}, nan),
        ("new_null_weighted_falls_back", {"filter_stats": {"filtered_complete": {
            "weighted": None}}, "filtered": {"weighted_n": 30},
            "unfiltered": {"weighted_n": 120}}, 0.25),
        ("new_empty_weighted_falls_back", {"filter_stats": {"filtered_complete": {
            "weighted": {}}}, "filtered": {"weighted_n": 30},
            "unfiltered": {"weighted_n": 120}}, 0.25),
        ("new_empty_filter_stats", {"filter_stats": {}, "filtered": {"weighted_n": 30},
                                    "unfiltered": {"weighted_n": 120}}, 0.25),
        ("cat_date_flag_without_complete", {"filter_stats": {"is_cat_date": True},
                                            "filtered": {"weighted_n": 30},
                                            "unfiltered": {"weighted_n": 120}}, 0.25),
        # observation only (DESIGN.md 4 C17 domain note): nulls in place of containers
        ("obs_null_filter_stats", {"filter_stats": None}, "observe"),
        ("obs_null_filtered", {"filtered": None, "unfiltered": {"weighted_n": 3}}, "observe"),
        ("obs_null_complete", {"filter_stats": {"filtered_complete": None}}, "observe"),
        ("obs_null_inside_new", {"filter_stats": {"filtered_complete": {"weighted": {
            "selected": None, "other": None}}}}, "observe"),
    ]


SHAPES = _filter_shapes()
RULE = (
    "W1 synthetic surveys over %d templates (categorical date on rows, columns, both or "
    "neither; slices and strands; with subtotals and differences) x weighting (a third of the "
    "strands with weights that are all zero) x every one of "
    "%d shapes of the response's filter statistics (absent, old style, new style, "
    "is_cat_date, zero denominators as int and float, null values, null weighted block, empty "
    "dicts) x two populations (linearity). Non-trivial: N >= 5, finite positive fraction and "
    "population, at least one estimate strictly between 0 and population."
    % (len(TEMPLATES), len(SHAPES)))
ASSUMPTIONS = [
    "JSON null in place of a whole container (filter_stats / filtered / filtered_complete) or "
    "inside the new-style block is executed and recorded, not judged (DESIGN.md 4 C17)",
    "the margin of error of a subtotal difference is not judged (only the estimate is stated "
    "to be NaN)",
]
TECHNIQUE = "reference-model runtime monitor (population x fraction x respondent-level proportion / std-err; fraction cascade table)"
DESIGN_REF = "DESIGN.md 4 C17"
WEIGHTS = ["none", "frac", "float", "scales", "tiny"]
REQUIRED_REACH = ["fraction", "population_counts", "population_counts_moe", "linearity",
                  "diff_nan", "strand_population", "class:date_rows", "class:date_cols",
                  "class:no_date", "class:strand_date"] + [
                      "class:shape=%s" % s[0] for s in SHAPES]
BATCH = 40
RULE = RULE + corpus.RULE_SUFFIX + w4.RULE_SUFFIX
REQUIRED_REACH = list(REQUIRED_REACH) + ["class:corpus", "class:w4", "filtercols_population", "class:augmented"]
TECHNIQUE = TECHNIQUE + corpus.TECHNIQUE_SUFFIX


def units(tier, seed):
    n = 24 * 25 if tier == "quick" else 20000
    # W1 synthetic surveys, then W3: the fixture corpus under the intrinsic relations
    fc = [{"fc": k, "seed": seed} for k in range(80 if tier == "quick" else 3000)]
    return [{"i": i, "seed": seed} for i in range(n)] + fc + corpus.units(tier, seed) + \
        w4.units(tier, seed)


def make_case(unit):
    if "corpus" in unit:
        return corpus.make_case(ID, unit)
    if "w4" in unit:
        return w4.make_case(ID, unit)
    if "fc" in unit:
        from .. import filtercols
        return filtercols.make_case(gen.G("C17/fc/%s/%s" % (unit["seed"], unit["fc"])), "C17")
    i = unit["i"]
    g = gen.G("C17/%s/%s" % (unit["seed"], i))
    shape = SHAPES[i % len(SHAPES)]
    j = i // len(SHAPES)
    template = TEMPLATES[j % len(TEMPLATES)]
    wmode = WEIGHTS[(j // len(TEMPLATES)) % len(WEIGHTS)]
    N = g.pick([5, 8, 12, 20, 30, 45])
    nparts = len(template.split("|"))
    sizes = [g.r.randint(2, 4) for _ in range(nparts)]
    facets = cases.random_facets(g, template, N, sizes=sizes, p_zero=0.1)
    tr = {}
    if g.chance(0.5):
        # on strands often both on the variable and in the analysis (the analysis wins: which
        # rows are differences is decided by the insertions actually displayed)
        cases.attach_insertions(g, facets, tr, hide_some=False, disjoint=True,
                                placement="both" if nparts == 1 and gen.stratum(
                                    ID, i, "both", 2) else None)
    if nparts == 1 and facets[0][0] == "cat" and g.chance(0.5):
        # several differences on one strand (two or more used to break population_counts)
        v = facets[0][1]
        vids = [c["id"] for c in v.valid_cats]
        if len(vids) >= 2 and v.kind in ("cat", "cat_date"):
            extra = [{"function": "subtotal", "name": "d%d" % k, "anchor": "bottom",
                      "kwargs": {"positive": [vids[k % len(vids)]],
                                 "negative": [vids[(k + 1) % len(vids)]]}, "id": 60 + k}
                     for k in range(g.r.randint(2, 3))]
            tr.setdefault("rows_dimension", {})
            base = tr["rows_dimension"].get("insertions")
            if base is None:
                base = list(v.view_insertions or [])
            tr["rows_dimension"]["insertions"] = list(base) + extra
    if nparts == 1 and gen.stratum(ID, i, "allzero", 3) == 0:
        wmode = "allzero"  # weighted table N = 0: a date strand still projects the full population
    spec = sim.CubeSpec(facets, g.weights(N, wmode),
                        ("mean",) if "numarr" in template else (), extra=shape[1])
    pop = g.pick([1000, 250000, 12345.5, 1])
    return {"template": template, "spec": sim.spec_to_dict(spec), "transforms": tr,
            "population": pop, "shape": shape[0]}


def check_case(case):
    if "fixture" in case:
        return corpus.check_case(ID, case)
    if case.get("w4"):
        return w4.check_case(ID, case)
    if case.get("mode") == "filtercols":
        from .. import filtercols
        return filtercols.check(case, ID)
    res = CaseResult()
    shape = [s for s in SHAPES if s[0] == case["shape"]][0]
    res.classes.append("shape=%s" % shape[0])
    L = cases.realize(case)
    o = L.oracle
    nd = o.ndim
    pop = case["population"]
    res.descriptor = cases.describe(case, {"filter_shape": shape[0], "filter": shape[1],
                                           "population": pop})
    fr = read(L.cube, "population_fraction")
    if shape[2] == "observe":
        res.observations["O2:%s -> %s" % (shape[0], "raises " + fr.exc_name if not fr.ok
                                          else repr(fr.value))] += 1
        return res
    exp_f = shape[2]
    okf = fr.ok and ((isinstance(fr.value, float) and math.isnan(fr.value)
                      and math.isnan(exp_f)) or (not math.isnan(exp_f)
                                                 and abs(float(fr.value) - exp_f) < 1e-12))
    if not res.check("fraction", okf, "fraction/%s" % shape[0],
                     {"got": repr(fr)[:120], "exp": exp_f}):
        return res
    parts = read(L.cube, "partitions")
    if not res.check("partitions_readable", parts.ok, "exception/partitions",
                     {"exc": repr(parts.exc)}):
        return res
    # second run with another population: linearity
    case2 = dict(case)
    case2["population"] = pop * 3
    L2 = cases.realize(case2)
    parts2 = read(L2.cube, "partitions")
    interior = False
    for t, part in enumerate(parts.value):
        pf = read(part, "population_fraction")
        res.check("fraction", pf.ok and (pf.value == fr.value or (
            pf.value != pf.value and fr.value != fr.value)), "fraction/partition",
            {"got": repr(pf)[:100]})
        if nd == 1:
            interior |= _strand(res, L, part, pop, exp_f)
        else:
            interior |= _slice(res, L, t, part, pop, exp_f)
        if parts2.ok:
            for attr in ("population_counts", "population_counts_moe"):
                a, b = read(part, attr), read(parts2.value[t], attr)
                if a.ok and b.ok:
                    ok, det = cmp.same(np.asarray(b.value, dtype=float),
                                       3 * np.asarray(a.value, dtype=float), rtol=1e-12)
                    res.check("linearity", ok, "linearity/%s" % attr, det)
    res.nontrivial = (o.N >= 5 and not math.isnan(exp_f) and exp_f > 0 and pop > 0
                      and interior)
    return res


def _slice(res, L, t, part, pop, frac):
    V = expect.SliceView(L, t, part)
    o = V.o
    rkind = getattr(o.facets[V.R][1], "kind", "") if o.facets[V.R][0] == "cat" else ""
    ckind = getattr(o.facets[V.C][1], "kind", "") if o.facets[V.C][0] == "cat" else ""
    if rkind == "cat_date":
        direction = "row"
        res.classes.append("date_rows")
    elif ckind == "cat_date":
        direction = "col"
        res.classes.append("date_cols")
    else:
        direction = "table"
        res.classes.append("no_date")
    nr, nc = len(V.rows), len(V.cols)
    expc = np.full((nr, nc), np.nan)
    expm = np.full((nr, nc), np.nan)
    judged = np.ones((nr, nc), dtype=bool)
    judged_moe = np.ones((nr, nc), dtype=bool)
    diff = np.zeros((nr, nc), dtype=bool)
    for i, r in enumerate(V.rows):
        for j, c in enumerate(V.cols):
            if V.is_diff(r) or V.is_diff(c):
                diff[i, j] = True
                judged_moe[i, j] = False
                continue
            p = V.proportion(r, c, direction)
            expc[i, j] = p * pop * frac
            v, W, _ = expect.cell_variance(V, r, c, direction)
            se = math.sqrt(v / W) if not math.isnan(v) and W > 0 else float("nan")
            expm[i, j] = Z * pop * frac * se
    gc, gm = read(part, "population_counts"), read(part, "population_counts_moe")
    if res.check("population_counts", gc.ok, "exception/population_counts",
                 {"exc": repr(gc.exc)}):
        g = np.asarray(gc.value, dtype=float)
        if res.check("population_counts", g.shape == (nr, nc), "shape/population_counts",
                     {"got": list(g.shape)}):
            ok, det = cmp.same(np.where(diff, 0, g), np.where(diff, 0, expc), rtol=1e-9,
                               atol=1e-9)
            res.check("population_counts", ok, "population_counts/%s" % direction, det)
            if diff.any():
                res.check("diff_nan", bool(np.all(np.isnan(g[diff]))),
                          "population_counts/difference_not_nan", {"got": g.tolist()})
    if res.check("population_counts_moe", gm.ok, "exception/population_counts_moe",
                 {"exc": repr(gm.exc)}):
        g = np.asarray(gm.value, dtype=float)
        if g.shape == (nr, nc):
            # inexact weights: the root of a last-bit variance (1e-8) times the population
            atol = 1e-9 if not V.inexact else 4e-7 * max(1.0, abs(pop * (frac if frac == frac
                                                                        else 1.0)))
            ok, det = cmp.same(np.where(judged_moe, g, 0), np.where(judged_moe, expm, 0),
                               rtol=1e-9 if not V.inexact else 1e-7, atol=atol)
            res.check("population_counts_moe", ok, "population_counts_moe/%s" % direction, det)
    fin = expc[~np.isnan(expc)]
    return bool(np.any((fin > 0) & (fin < pop * frac))) if fin.size and frac == frac else False


def _strand(res, L, part, pop, frac):
    o = L.oracle
    tr = L.case.get("transforms") or {}
    subs = expect.resolved_subtotals(o, 0, tr.get("rows_dimension"))
    order = [int(x) for x in read(part, "row_order").value]
    weighted = L.spec.weight is not None
    role, var = o.facets[0]
    date = role == "cat" and var.kind == "cat_date"
    res.classes.append("strand_date" if date else "strand_plain")
    expc, expm, isdiff = [], [], []
    for e in order:
        if e >= 0:
            el, d = e, False
        else:
            s = subs[e + len(subs)]
            el, d = ("sub", tuple(s["addends"]), tuple(s["subtrahends"])), bool(s["subtrahends"])
        isdiff.append(d)
        if date:
            expc.append(1.0 * pop * frac)
            expm.append(Z * pop * frac * 0.0)
            continue
        bm = o.mask({0: o._first_base(el)}, (0,))
        w = o.w[bm]
        W = float(w.sum())
        if W == 0:
            expc.append(float("nan"))
            expm.append(float("nan"))
            continue
        ind = expect.indicator(o, {0: el})[bm]
        p = float((w * ind).sum() / W)
        var_ = float((w * (ind - p) ** 2).sum() / W)
        expc.append(p * pop * frac)
        expm.append(Z * pop * frac * math.sqrt(var_ / W))
    isdiff = np.array(isdiff, dtype=bool)
    gc, gm = read(part, "population_counts"), read(part, "population_counts_moe")
    if res.check("strand_population", gc.ok, "exception/strand/population_counts",
                 {"exc": repr(gc.exc)}):
        g = np.asarray(gc.value, dtype=float)
        e = np.array(expc)
        if g.shape == e.shape:
            ok, det = cmp.same(np.where(isdiff, 0, g), np.where(isdiff, 0, e), rtol=1e-9,
                               atol=1e-9)
            res.check("strand_population", ok, "strand/population_counts%s" % (
                "/date" if date else ""), det)
            if isdiff.any():
                res.check("diff_nan", bool(np.all(np.isnan(g[isdiff]))),
                          "strand/population_counts/difference_not_nan", {"got": g.tolist()})
        else:
            res.check("strand_population", False, "strand/population_counts/shape",
                      {"got": list(g.shape), "exp": list(e.shape)})
    if res.check("strand_population", gm.ok, "exception/strand/population_counts_moe",
                 {"exc": repr(gm.exc)}):
        g = np.asarray(gm.value, dtype=float)
        e = np.array(expm)
        if g.shape == e.shape:
            inexact = not cases.weights_exact(L.spec)
            atol = 1e-9 if not inexact else 4e-7 * max(1.0, abs(pop * (frac if frac == frac
                                                                      else 1.0)))
            ok, det = cmp.same(np.where(isdiff, 0, g), np.where(isdiff, 0, e),
                               rtol=1e-9 if not inexact else 1e-7, atol=atol)
            res.check("strand_population", ok, "strand/population_counts_moe%s" % (
                "/date" if date else ""), det)
    fin = np.array([x for x in expc if x == x])
    return bool(np.any((fin > 0) & (fin < pop * frac))) if fin.size and frac == frac else False
