"""C18 - results are a pure function of the arguments, whatever the access history (H)."""

import copy
import json
import random
import threading

import numpy as np

from .. import cases, gen, sim, partcmp, transforms as T, expect
from ..harness import CaseResult
from ..probe import read, snap

ID = "C18"
TITLE = "Results are a pure function of the arguments, whatever the access history"
TEMPLATES = ["mr|cat", "cat|mr", "mr|mr", "cai|cac", "cac|cai", "numarr|cat", "cat|datetime",
             "datetime|cat", "cat|mr|cat", "mr|cat|mr", "cat|cai|cac", "cat|cat", "mr",
             "datetime", "numarr", "cat|cat|cat", "mrd|cat", "cat|mrd", "cat", "cat_date",
             "cat|cat_date"]
MODES = ["cube"] * 5 + ["cubeset_tabbook", "cubeset_ca0", "cubeset_numsum", "cubeset_filtercols"]
RULE = (
    "Recorded histories: a seeded random program of 40-160 steps over {construct another Cube "
    "/ CubeSet from the *same* response and transform objects, construct from JSON text or a "
    "{'value': ...} envelope, read public property p of partition j of cube c, re-read, read "
    "on the cube itself} is executed against shared argument objects; every read's canonical "
    "snapshot (or exception type) is compared with a pristine table in which each entry was "
    "computed by a fresh object built from deep copies and read exactly once. %d templates "
    "(array-type and datetime dimensions with transforms in every slot spelled by non-alias "
    "and stale ids, 3-D cubes whose slices re-shim the same transforms, multi-cube sets that "
    "inflate / rewrite responses in place). A mutation audit diffs the caller-owned objects "
    "before and after. Thorough adds a thread stress (8 threads x shared partitions, "
    "sys.setswitchinterval(1e-6) and sys.monitoring LINE yield injection in util.py / "
    "dimension.py). Non-trivial: the audit shows the library rewrote a caller-owned object, "
    "or >= 2 cubes shared the arguments, and >= 30 reads were compared." % len(TEMPLATES))
ASSUMPTIONS = [
    "snapshots are canonical nested lists with NaN/inf mapped to strings; two floats must be "
    "bit-identical (the same code on the same inputs)",
    "the deciding run is single-threaded; the thread stress explores interleavings by "
    "yielding, it does not enumerate them",
]
TECHNIQUE = "history monitor: recorded read/construct histories on shared arguments vs a pristine per-entry table (raising reads repeated); mutation audit; invariants at hooks (memo slots named after their lazy property, icontract on the shared dimension dict); thread stress with yield injection (both tiers)"
DESIGN_REF = "DESIGN.md 4 C18; 2.4(d)(e)"
REQUIRED_REACH = {
    "quick": ["history_read", "reread", "construct_shared", "envelope_equivalence", "thread_read",
              "contract_dimension_dict_prepared", "memo_slot_named_after_its_property",
              "class:mutated_response", "class:set_and_single_cubes",
              "class:same_transforms_other_survey", "class:mode=cube",
              "class:mode=cubeset_tabbook", "class:mode=cubeset_ca0",
              "class:mode=cubeset_numsum", "class:mode=cubeset_filtercols", "class:3d",
              "class:means_pairwise_defined", "class:failing_read_repeated",
              "failing_read_repeated",
              "class:corpus"],
    "thorough": ["history_read", "reread", "construct_shared", "envelope_equivalence",
                 "thread_read", "contract_dimension_dict_prepared",
                 "memo_slot_named_after_its_property", "class:mutated_response",
                 "class:set_and_single_cubes",
                 "class:means_pairwise_defined", "class:corpus"],
}
BATCH = 12
UNIT_TIMEOUT_S = 90


_contract = {"evals": 0, "violations": []}


def setup_worker():
    """Runtime contract (recording, never raising) on the function that prepares a dimension
    dict shared by every Dimension built over it: when it returns for an array-type dimension
    every element carries its alias, for a datetime dimension every valid element its value.
    A reader that returns early while another thread is still filling the dict in violates it
    at that moment, whether or not a wrong number follows (invariant at a hook)."""
    try:
        import cr.cube.dimension as D
        from cr.cube.enums import DIMENSION_TYPE as DT
        from cr.cube.util import lazyproperty

        orig = D._ElementIdShim.__dict__["shimmed_dimension_dict"]._fget

        def shimmed_dimension_dict(self):
            out = orig(self)
            _contract["evals"] += 1
            try:
                els = out["type"].get("elements") or []
                if self.dimension_type in DT.ARRAY_TYPES:
                    bad = [k for k, e in enumerate(els) if "subvar_alias" not in e]
                elif self.dimension_type == DT.DATETIME:
                    bad = [k for k, e in enumerate(els) if not isinstance(e.get("value"), dict)
                           and "datetime_value" not in e]
                else:
                    bad = []
                if bad:
                    _contract["violations"].append(
                        {"dimension_type": self.dimension_type.name, "elements": len(els),
                         "unprepared_elements": bad[:8],
                         "thread": threading.current_thread().name})
            except Exception as e:  # a contract must not disturb the workload
                _contract["violations"].append({"why": "contract error %r" % e})
            return out

        shimmed_dimension_dict.__doc__ = orig.__doc__
        D._ElementIdShim.shimmed_dimension_dict = lazyproperty(shimmed_dimension_dict)
        _contract["installed"] = True
    except Exception as e:
        _contract["installed"] = False
        _contract["error"] = repr(e)


def worker_extra():
    return {"contract_installed": _contract.get("installed"),
            "contract_evaluations": _contract["evals"], "error": _contract.get("error")}


def units(tier, seed):
    from .. import corpus

    n = 640 if tier == "quick" else 20000
    out = [{"i": i, "seed": seed, "threads": False} for i in range(n)]
    # W3: histories on the repository's fixture responses (every second one in the quick tier)
    cu = corpus.units(tier, seed, reps=1 if tier == "quick" else 6)
    out += [u for k, u in enumerate(cu) if tier != "quick" or k % 2 == seed % 2]
    # W5 thread stress: 84 histories in the quick tier, 840 in the thorough tier
    out += [{"i": i, "seed": seed, "threads": True} for i in range(
        84 if tier == "quick" else 840)]
    return out


# ------------------------------------------------------------------------------ generation


def _nonalias_ref(g, role, var, j):
    """A non-alias spelling of item j of an array / datetime dimension."""
    if role == "cat":
        c = [c for c in var.axis_cats if not c.get("missing")][j]
        return g.pick([c["id"], str(c["id"]), c["value"]])
    if role == "numarr":
        return g.pick([j, str(j), var.items[j]["subvar_id"], var.items[j]["alias"]])
    it = var.items[j]
    return g.pick([it["subvar_id"], it["elem_id"], str(it["elem_id"]), it["alias"]])


def _array_transforms(g, spec, tr):
    o = sim.Oracle(spec)
    nd = o.ndim
    dims = [("rows_dimension", 0, None)] if nd == 1 else [
        ("rows_dimension", nd - 2, nd - 1), ("columns_dimension", nd - 1, nd - 2)]
    for key, d, od in dims:
        role, var = o.facets[d]
        arrayish = role in ("mr", "ca_items", "numarr") or (
            role == "cat" and var.kind == "datetime")
        n = o.n_valid(d)
        dd = tr.setdefault(key, {})
        if arrayish and n:
            els = {}
            for j in g.r.sample(range(n), g.r.randint(0, min(2, n))):
                ref = _nonalias_ref(g, role, var, j)
                els[str(ref)] = g.pick([{"hide": True}, {"name": "renamed"},
                                        {"hide": False, "fill": "#123456"}])
            if g.chance(0.5):
                els[g.pick(["no_such", "977", "-3"])] = {"hide": True}
            if els:
                dd["elements"] = els
            kind = g.pick(["explicit", "label", "none", "explicit"])
            if kind == "explicit":
                lst = [_nonalias_ref(g, role, var, j) for j in g.r.sample(range(n), n)]
                if g.chance(0.6):
                    lst.insert(g.r.randrange(len(lst) + 1), g.pick(["stale", 977, None, -4]))
                dd["order"] = {"type": "explicit", "element_ids": lst}
            elif kind == "label":
                top = [_nonalias_ref(g, role, var, g.r.randrange(n))]
                dd["order"] = {"type": "label", "fixed": {"top": top + [g.pick(["zz", 977])],
                                                          "bottom": [g.pick(["zz", None])]}}
        elif not arrayish:
            ids, _ = T.transform_ids(o, d)
            if g.chance(0.4) and ids:
                dd["elements"] = T.random_hides(g, ids, p=1.0)
            if od is not None and g.chance(0.5):
                orole, ovar = o.facets[od]
                on = o.n_valid(od)
                if on and (orole in ("mr", "ca_items", "numarr") or (
                        orole == "cat" and ovar.kind == "datetime")):
                    dd["order"] = {"type": "opposing_element", "measure": "count_weighted",
                                   "element_id": _nonalias_ref(g, orole, ovar,
                                                               g.r.randrange(on))}
        if g.chance(0.3):
            dd["prune"] = True
        if not dd:
            del tr[key]


def make_case(unit):
    if "corpus" in unit:
        from .. import corpus

        rel = corpus.fixture_paths()[unit["corpus"]]
        g = gen.G("C18/corpus/%s/%s/%s" % (unit["seed"], unit["corpus"], unit["rep"]))
        return {"mode": "fixture", "template": "fixture", "fixture": rel,
                "transforms_list": [corpus.random_full_transforms(g, corpus.load(rel))],
                "population": 1000, "threads": False,
                "hseed": "hc/%s/%s/%s" % (unit["seed"], unit["corpus"], unit["rep"])}
    i = unit["i"]
    g = gen.G("C18/%s/%s/%s" % (unit["seed"], i, unit["threads"]))
    mode = MODES[i % len(MODES)]
    if unit["threads"]:
        mode = "cube" if i % 4 else MODES[5 + (i // 4) % (len(MODES) - 5)]
    N = g.pick([8, 14, 24])
    w = g.weights(N, g.pick(["none", "frac"]))
    if mode == "cube":
        template = TEMPLATES[(i if unit["threads"] else i // len(MODES)) % len(TEMPLATES)]
        tpl = template.replace("mrd", "mr")
        facets = cases.random_facets(g, tpl, N, sizes=[g.r.randint(2, 4)] * len(
            tpl.split("|")), p_zero=0.1)
        if "mrd" in template:
            from .c07 import _derive_items
            for role, v in facets:
                if role == "mr":
                    _derive_items(g, v)
        tr = {}
        cat_rows = template in ("cat", "cat_date", "cat|cat", "cat|cat_date", "cat|mr",
                                "cat|datetime", "cat|mrd")
        if g.chance(0.8 if cat_rows else 0.5):
            if cat_rows and g.chance(0.6):
                # insertions given in the analysis, mostly without ids (the library numbers
                # them itself) - on a transforms object that another survey will share
                cases.attach_insertions(g, facets, tr, placement="transform",
                                        with_ids=g.pick(["none", "none", "mixed"]),
                                        n=g.r.randint(2, 4))
            else:
                cases.attach_insertions(g, facets, tr)
        mset = ("mean",) if "numarr" in template else g.pick(
            [(), ("mean",), ("mean", "stddev"), ("mean", "stddev")])
        if facets[-1][0] == "mr" and len(facets) == 2 and "numarr" not in template and \
                g.chance(0.5):
            mset = tuple(mset) + ("overlap",)  # overlap-corrected pairwise tests
        spec = sim.CubeSpec(facets, w, mset, None if "numarr" in template else g.num(N))
        if "numarr" not in template and "mean" not in spec.measures:
            spec.numvar = None
        _array_transforms(g, spec, tr)
        if gen.stratum(ID, i, "smoother", 3) == 0:
            # a smoother on the last dimension: a legal one, or one whose evaluation raises
            # (unknown function, non-integer window) - a read that fails must fail again
            # when repeated, and leave nothing behind for the next read to find
            sm = [{"function": "one_sided_moving_avg", "window": 2},
                  {"function": "one_sided_moving_avg", "window": 3},
                  {"function": "two_sided_moving_avg", "window": 2},
                  {"function": "one_sided_moving_avg", "window": 2.0},
                  {"function": "lowess"}][gen.stratum(ID, i, "smoother2", 5)]
            tr.setdefault("rows_dimension" if len(facets) == 1 else "columns_dimension",
                          {})["smoother"] = sm
        if len(facets) >= 2 and gen.stratum(ID, i, "alpha", 2):
            # two thresholds: every secondary-threshold measure is defined and has to keep its
            # own value whichever of its siblings was read first
            tr["pairwise_indices"] = {
                "alpha": [[0.05, 0.4], [0.01, 0.2], [0.3, 0.05]][gen.stratum(ID, i, "a2", 3)],
                "only_larger": bool(gen.stratum(ID, i, "ol", 2))}
        return {"mode": mode, "template": template, "specs": [sim.spec_to_dict(spec)],
                "transforms_list": [tr], "population": 1000, "threads": unit["threads"],
                "hseed": "h/%s/%s" % (unit["seed"], i)}
    if mode == "cubeset_filtercols":
        from .. import filtercols

        c = filtercols.make_case(g, "C18")
        c.update({"mode": mode, "template": mode, "threads": unit["threads"],
                  "transforms_list": [{} for _ in range(1 + len(c["filters"]))],
                  "hseed": "h/%s/%s" % (unit["seed"], i)})
        return c
    from .c06 import make_case as c06_case
    # reuse C06's multi-cube generators
    k = {"cubeset_tabbook": 6, "cubeset_ca0": 7, "cubeset_numsum": 8}[mode]
    c = c06_case({"i": k + 10 * (i // len(MODES)), "seed": "C18/%s" % unit["seed"]})
    trs = c["transforms_list"]
    specs = [sim.spec_from_dict(d) for d in c["specs"]]
    for spec, tr in zip(specs, trs):
        if spec.facets and len(spec.facets) <= 3 and mode != "cubeset_ca0":
            _array_transforms(g, spec, tr)
    return {"mode": mode, "template": mode, "specs": c["specs"], "transforms_list": trs,
            "population": 500, "threads": unit["threads"],
            "hseed": "h/%s/%s" % (unit["seed"], i)}


# ------------------------------------------------------------------------------- running


def _responses(case):
    if case["mode"] == "fixture":
        from .. import corpus

        d = json.loads(json.dumps(corpus.load(case["fixture"])))
        return [d.get("value", d)]  # the harness adds the envelope itself
    if case["mode"] == "cubeset_filtercols":
        from .. import filtercols

        n = len(case["ans"])
        wts = case.get("weights")
        mp = case.get("miss_pos") or [1.0] * (1 + len(case["filters"]))
        out = [filtercols._response(case["labels"], case["ans"], [True] * n, False, False,
                                    wts, mp[0])[0]]
        out += [filtercols._response(case["labels"], case["ans"], k, True, True, wts,
                                     mp[j_ + 1])[0]
                for j_, k in enumerate(case["filters"])]
        return json.loads(json.dumps(out))
    out = [json.loads(json.dumps(sim.build_response(sim.spec_from_dict(d))))
           for d in case["specs"]]
    if case["mode"] == "cube":
        alt = _alt_response(case)
        if alt is not None:
            out.append(alt)
    return out


def _alt_response(case):
    """Another survey analysed with the *same* transforms object: the same query in which some
    valid categories of the rows variable are flagged missing (a shorter scale), so that some
    of the insertions / element references of the shared transforms do not apply to it."""
    spec = sim.spec_from_dict(json.loads(json.dumps(case["specs"][0])))
    lf = cases.library_order_facets(spec.facets)
    role, var = lf[0] if len(lf) == 1 else lf[-2]
    if role != "cat" or getattr(var, "kind", "") not in ("cat", "cat_date"):
        return None
    valid = [k for k, c in enumerate(var.cats) if not c.get("missing")]
    if len(valid) < 2:
        return None
    r = random.Random(str(case["hseed"]) + "/alt")
    for k in r.sample(valid, r.randint(1, len(valid) - 1)):
        var.cats[k]["missing"] = True
    try:
        return json.loads(json.dumps(sim.build_response(spec)))
    except Exception:
        return None


def _build(case, responses, trs, form="dict", which=None):
    """The object under test for shared or fresh argument objects.

    `which` = j builds the stand-alone Cube of response j of a cube-set case from the very
    same argument objects (a multi-table and its single tables are analysed side by side)."""
    from cr.cube.cube import Cube, CubeSet

    if which is not None:
        resp = responses[which]
        if form == "json":
            resp = json.dumps(resp)
        elif form == "envelope":
            resp = {"element": "shoji:view", "value": resp}
        return Cube(resp, transforms=trs[min(which, len(trs) - 1)],
                    population=case["population"], mask_size=3)
    if case["mode"] in ("cube", "fixture"):
        resp = responses[0]
        if form == "json":
            resp = json.dumps(resp)
        elif form == "envelope":
            resp = {"element": "shoji:view", "value": resp}
        return Cube(resp, transforms=trs[0], population=case["population"], mask_size=3)
    if form == "json":
        responses = [json.dumps(x) for x in responses]
    elif form == "envelope":
        responses = [{"element": "shoji:view", "value": x} for x in responses]
    return CubeSet(responses, trs, case["population"], 3)


def _partitions(case, obj, which=None):
    if which is not None or case["mode"] in ("cube", "fixture"):
        return list(obj.partitions)
    return [p for pset in obj.partition_sets for p in pset]


CUBE_ATTRS = ["counts", "unweighted_counts", "dimension_types", "ndim", "name", "description",
              "has_weighted_counts", "missing", "n_responses", "population_fraction", "title",
              "available_measures", "valid_counts_summary_range", "means", "weighted_counts"]
SET_ATTRS = ["available_measures", "can_show_pairwise", "description", "has_numeric_measures",
             "has_weighted_counts", "is_ca_as_0th", "missing_count", "name",
             "population_fraction", "n_responses", "valid_counts_summary_range"]


def _outcome(o):
    if o.ok:
        v = o.value
        if type(v).__name__ == "MinBaseSizeMask":
            # (hasattr would evaluate the lazy masks outside a boundary read)
            return ("ok", [_outcome(read(v, nm)) for nm in ("row_mask", "column_mask",
                                                            "table_mask")])
        if isinstance(v, tuple) and v and type(v[0]).__name__ == "_ColumnPairwiseSignificance":
            return ("ok", [snap(read(x, "t_stats").value) for x in v])
        return ("ok", snap(v))
    return ("raise", o.exc_name)


def _entries(case, parts, which=None):
    """All (where, attr, args[, which]) read entries of the object."""
    if which is not None:
        sub = dict(case, mode="cube")
        return [e + (which,) for e in _entries(sub, parts)]
    from cr.cube.enums import ORDER_FORMAT

    out = []
    for j, p in enumerate(parts):
        for name in partcmp.public_names(p):
            out.append((j, name, ()))
        if hasattr(p, "row_order"):
            out.append((j, "row_order", (int(ORDER_FORMAT.BOGUS_IDS),)))
        if hasattr(p, "column_order"):
            out.append((j, "column_order", (int(ORDER_FORMAT.BOGUS_IDS),)))
            try:
                ncols = int(p.shape[1])
            except Exception:
                ncols = 1
            # every argument-taking accessor, for several selected columns: results of one
            # family must not leak into another family or another column
            for c in range(min(ncols, 3)):
                for m in ("pairwise_significance_t_stats", "pairwise_significance_p_vals",
                          "pairwise_significance_means_t_stats",
                          "pairwise_significance_means_p_vals"):
                    out.append((j, m, (c,)))
    for a in (CUBE_ATTRS if case["mode"] in ("cube", "fixture") else SET_ATTRS):
        out.append((-1, a, ()))
    return out


def _read_entry(case, obj, parts, entry):
    from cr.cube.enums import ORDER_FORMAT

    j, name, args = entry[:3]
    target = obj if j < 0 else parts[j]
    if name in ("row_order", "column_order") and args:
        return read(target, name, ORDER_FORMAT(args[0]))
    return read(target, name, *args)


def _is_lazy(cls, name):
    from cr.cube.util import lazyproperty

    for k in cls.__mro__:
        if name in vars(k):
            return isinstance(vars(k)[name], lazyproperty)
    return False


def check_case(case):
    res = CaseResult()
    _contract["violations"] = []
    evals_before = _contract["evals"]
    try:
        return _check_case(case, res)
    finally:
        res.monitors["contract_dimension_dict_prepared"] += _contract["evals"] - evals_before
        for v in _contract["violations"]:
            res.check("contract_dimension_dict_prepared", False,
                      "contract/shimmed_dimension_dict", v)


def _check_case(case, res):
    res.classes.append("mode=%s" % case["mode"])
    base_resp = _responses(case)
    base_trs = case["transforms_list"]
    if case["mode"] == "fixture":
        res.classes.append("corpus")
    if case["mode"] == "cube" and len(sim.spec_from_dict(case["specs"][0]).facets) == 3:
        res.classes.append("3d")
    # ---- pristine table: one fresh object per entry ----------------------------------------
    probe_obj = _build(case, copy.deepcopy(base_resp), copy.deepcopy(base_trs))
    try:
        probe_parts = _partitions(case, probe_obj)
    except Exception as e:
        res.check("history_read", False, "exception/partitions", {"exc": repr(e)})
        return res
    entries = _entries(case, probe_parts)
    if case["mode"] == "cube" and len(base_resp) > 1:
        res.classes.append("same_transforms_other_survey")
    if case["mode"].startswith("cubeset") or (case["mode"] == "cube" and len(base_resp) > 1):
        # the single tables of the multi-table, analysed on their own from the same argument
        # objects (and the same JSON text): entries carry the index of their response; for a
        # single cube: another survey (index 1) analysed with the same transforms object
        if case["mode"].startswith("cubeset"):
            res.classes.append("set_and_single_cubes")
        for j_ in range(1 if case["mode"] == "cube" else 0, len(base_resp)):
            try:
                single = _build(case, copy.deepcopy(base_resp), copy.deepcopy(base_trs),
                                which=j_)
                entries += _entries(case, _partitions(case, single, j_), which=j_)
            except Exception:
                res.skipped["single_cube_not_constructible"] += 1
    r = random.Random(case["hseed"])
    # a history touches a sample of the entries (each maybe several times)
    n_steps = r.randint(40, 160)
    chosen = [r.choice(entries) for _ in range(n_steps)]
    pristine = {}
    def kind(e):
        return e[3] if len(e) == 4 else None

    wanted = set(chosen)
    if case.get("threads"):
        wanted |= set(e for e in entries if kind(e) is None)  # the thread stress reads them all
    for e in wanted:
        fresh = _build(case, copy.deepcopy(base_resp), copy.deepcopy(base_trs), which=kind(e))
        try:
            fparts = _partitions(case, fresh, kind(e)) if e[0] >= 0 else None
            pristine[e] = _outcome(_read_entry(case, fresh, fparts, e))
        except Exception as ex:
            pristine[e] = ("raise", type(ex).__name__)
    # ---- the history on shared argument objects ------------------------------------------------
    shared_resp = copy.deepcopy(base_resp)
    shared_trs = copy.deepcopy(base_trs)
    before = json.dumps([shared_resp, shared_trs], sort_keys=True, default=str)
    pool = []

    def new_obj(form="dict", which=None):
        ob = _build(case, shared_resp, shared_trs, form, which)
        pool.append([ob, None, which])
        return ob

    new_obj()
    history = []
    n_reads = 0
    seen_reads = set()
    for step, e in enumerate(chosen):
        u = r.random()
        same_kind = [k_ for k_, x in enumerate(pool) if x[2] == kind(e)]
        if u < 0.08 or not same_kind:
            form = r.choice(["dict", "dict", "json", "envelope"])
            new_obj(form, kind(e))
            history.append(["construct", form, kind(e)])
            res.monitors["construct_shared"] += 1
            same_kind.append(len(pool) - 1)
        k = r.choice(same_kind)
        ob, parts = pool[k][0], pool[k][1]
        if parts is None and e[0] >= 0:
            try:
                parts = _partitions(case, ob, kind(e))
            except Exception as ex:
                res.check("history_read", pristine[e][0] == "raise", "history/partitions_raise",
                          {"exc": repr(ex), "history": history[-12:]})
                continue
            pool[k][1] = parts
        if e[0] >= 0 and e[0] >= len(parts):
            res.check("history_read", False, "history/partition_count",
                      {"got": len(parts), "wanted": e[0], "history": history[-12:]})
            continue
        target = ob if e[0] < 0 else parts[e[0]]
        slots_before = set(vars(target)) if hasattr(target, "__dict__") else set()
        got = _outcome(_read_entry(case, ob, parts, e))
        history.append(["read", k, e[0], e[1], list(e[2]), kind(e)])
        # invariant at a hook: a value memoised on the object by this read sits in a slot
        # named after a lazy property of its class (a slot under any other name is shared
        # by whatever else writes there)
        foreign = [nm for nm in set(vars(target)) - slots_before
                   if not _is_lazy(type(target), nm)] if hasattr(target, "__dict__") else []
        res.check("memo_slot_named_after_its_property", not foreign,
                  "history/foreign_memo_slot/%s" % e[1],
                  None if not foreign else {"slots": sorted(foreign), "read": e[1]})
        if e[1].startswith("pairwise_") and "means" in e[1] and pristine[e][0] == "ok":
            res.classes.append("means_pairwise_defined")
        if (k, e) in seen_reads and pristine[e][0] == "raise":
            res.classes.append("failing_read_repeated")
        n_reads += 1
        mon = "reread" if (k, e) in seen_reads else "history_read"
        seen_reads.add((k, e))
        ok = got == pristine[e]
        res.check(mon, ok, "%s/%s%s" % (mon, "cube." if e[0] < 0 else "", e[1]),
                  None if ok else {"entry": list(e[:2]), "got": _short(got),
                                   "pristine": _short(pristine[e]), "cube": k,
                                   "history_tail": history[-15:]})
    # ---- a read that raises is repeated on one object: it has to raise the same way each
    # ---- time (what a failed evaluation left behind must not pass for its value later)
    raising = sorted((e for e in pristine if pristine[e][0] == "raise" and kind(e) is None),
                     key=repr)
    for e in r.sample(raising, min(8, len(raising))):
        ob = new_obj()
        try:
            parts = _partitions(case, ob) if e[0] >= 0 else None
        except Exception:
            continue
        if parts is not None and e[0] >= len(parts):
            continue
        for rep in range(3):
            got = _outcome(_read_entry(case, ob, parts, e))
            ok = got == pristine[e]
            res.check("failing_read_repeated", ok, "reread_raising/%s" % e[1],
                      None if ok else {"entry": list(e[:2]), "repetition": rep,
                                       "got": _short(got), "pristine": _short(pristine[e])})
    after = json.dumps([shared_resp, shared_trs], sort_keys=True, default=str)
    # ---- mutation audit ------------------------------------------------------------------------
    mutated = False
    if json.dumps(shared_trs, sort_keys=True, default=str) != json.dumps(
            base_trs, sort_keys=True, default=str):
        res.classes.append("mutated_transforms")
        mutated = True
    if json.dumps(shared_resp, sort_keys=True, default=str) != json.dumps(
            base_resp, sort_keys=True, default=str):
        res.classes.append("mutated_response")
        mutated = True
    # ---- JSON text / dict / envelope give the same table ------------------------------------------
    if True:  # every mode: cubes and cube sets alike accept the three input forms
        main = sorted((e for e in set(chosen) if kind(e) is None), key=repr)
        sample = r.sample(main, min(12, len(main)))
        for form in ("json", "envelope"):
            ob = _build(case, copy.deepcopy(base_resp), copy.deepcopy(base_trs), form)
            try:
                parts = _partitions(case, ob)
            except Exception as ex:
                res.check("envelope_equivalence", False, "envelope/%s/partitions" % form,
                          {"exc": repr(ex)})
                continue
            for e in sample:
                got = _outcome(_read_entry(case, ob, parts, e))
                ok = got == pristine[e]
                res.check("envelope_equivalence", ok, "envelope/%s/%s" % (form, e[1]),
                          None if ok else {"got": _short(got), "pristine": _short(pristine[e])})
    if case.get("threads"):
        _thread_stress(res, case, base_resp, base_trs, entries,
                       {e: v for e, v in pristine.items() if kind(e) is None}, r)
    res.descriptor = {"mode": case["mode"], "template": case.get("template"),
                      "steps": n_steps, "reads": n_reads, "objects_sharing_arguments": len(pool),
                      "transforms": base_trs, "history_head": history[:8]}
    res.nontrivial = n_reads >= 30 and (mutated or len(pool) >= 2)
    return res


def _short(x):
    s = json.dumps(x, default=str)
    return s if len(s) < 500 else s[:500] + "..."


# --------------------------------------------------------------------------- thread stress


def _thread_stress(res, case, base_resp, base_trs, entries, pristine_known, r):
    """8 threads read the same partitions; every value must equal the pristine one.

    Several rounds, each on a fresh shared object: in a round all threads wait at a barrier
    and then read the *same few* properties (in their own order), so that first accesses -
    where a lazily cached value is computed and stored - collide. The interpreter switches
    threads every microsecond and a LINE monitor yields at random lines of the modules that
    hold the caches and the measures."""
    import sys
    import time

    todo = [e for e in pristine_known if e[0] >= 0]
    if not todo:
        return
    results = []
    lock = threading.Lock()
    old = sys.getswitchinterval()
    sys.setswitchinterval(1e-6)
    tool = None
    try:
        mon = getattr(sys, "monitoring", None)
        if mon is not None:
            tool = 3
            try:
                mon.use_tool_id(tool, "verif-yield")
                rr = random.Random(str(case["hseed"]) + "/y")
                import cr.cube.util as U
                import cr.cube.dimension as D
                import cr.cube.matrix.measure as MM
                import cr.cube.stripe.measure as SM
                files = {U.__file__, D.__file__, MM.__file__, SM.__file__}

                def on_line(code, line):
                    if code.co_filename in files:
                        u = rr.random()
                        if u < 0.012:
                            time.sleep(0.006)  # hold this thread: the others run far ahead
                        elif u < 0.2:
                            time.sleep(0)
                        return None
                    return mon.DISABLE

                mon.register_callback(tool, mon.events.LINE, on_line)
                mon.set_events(tool, mon.events.LINE)
            except Exception:
                tool = None
        res.observations["thread-stress histories %s LINE yield injection" % (
            "with" if tool is not None else "WITHOUT")] += 1
        n_threads = 8
        order = r.sample(todo, len(todo))
        size = max(1, (len(order) + 4) // 5)
        chunks = [order[k:k + size] for k in range(0, len(order), size)]  # every entry once
        for rnd_no in range(len(chunks)):
            shared = _build(case, copy.deepcopy(base_resp), copy.deepcopy(base_trs))
            few = chunks[rnd_no % len(chunks)]
            barrier = threading.Barrier(n_threads)

            def worker(seed, shared=shared, few=few, barrier=barrier):
                # the threads also obtain the partitions themselves, at the same time (the
                # dimensions are prepared on first use, in dicts shared by all partitions);
                # then all take the entries in the same order and meet before each one:
                # every property is first read by all of them at once
                try:
                    barrier.wait(20)
                except threading.BrokenBarrierError:
                    pass
                try:
                    _partitions(case, shared)
                except Exception as ex:
                    with lock:
                        results.append((few[0], ("raise-in-partitions", type(ex).__name__)))
                try:
                    barrier.wait(20)
                except threading.BrokenBarrierError:
                    pass
                try:
                    # whichever thread stored last, everybody now sees the same partitions
                    parts = _partitions(case, shared)
                except Exception:
                    return
                for e in few:
                    try:
                        barrier.wait(20)
                    except threading.BrokenBarrierError:
                        pass
                    got = _outcome(_read_entry(case, shared, parts, e))
                    with lock:
                        results.append((e, got))

            ths = [threading.Thread(target=worker,
                                    args=("%s/%d/%d" % (case["hseed"], rnd_no, k),))
                   for k in range(n_threads)]
            for t in ths:
                t.start()
            for t in ths:
                t.join(60)
    finally:
        sys.setswitchinterval(old)
        if tool is not None:
            try:
                sys.monitoring.set_events(tool, 0)
                sys.monitoring.free_tool_id(tool)
            except Exception:
                pass
    for e, got in results:
        ok = got == pristine_known[e]
        res.check("thread_read", ok, "thread/%s" % e[1],
                  None if ok else {"got": _short(got), "pristine": _short(pristine_known[e])})
