"""C19 - array items may be referenced by alias, sub-variable id or element id alike (M)."""

import copy
import json

import numpy as np

from .. import cases, gen, sim, partcmp
from ..harness import CaseResult
from ..probe import read

ID = "C19"
TITLE = "Array items may be referenced by alias, sub-variable id or element id alike"
TEMPLATES = ["mr|cat", "cat|mr", "cai|cac", "cac|cai", "numarr|cat", "mr", "numarr",
             "cat|datetime", "datetime|cat", "datetime", "cat|mr|cat", "mr|mr", "mrd|cat",
             "cat|mrd", "mrd"]
SLOTS = ["hide", "rename", "explicit", "fixed_top", "fixed_bottom", "opposing",
         "derived_insertion", "fixed_opposing", "fixed_marginal"]
STALE = ["no_such_alias", 977, "977", -3, "-3", None, float("nan"), 10 ** 9]
RULE = (
    "For every array-type dimension of %d templates (MR, MR with derived items, CA items, "
    "numeric array, datetime; as rows, columns, strand; one 3-D) with 1-3 items (quick) / 1-5 "
    "(thorough), every transform slot that takes an element reference {hide key, rename key, "
    "explicit order, fixed top, fixed bottom, sort-by-opposing-element, opposing-insertion on a "
    "derived item, item pinned while its own dimension is sorted by an opposing element or by "
    "a marginal}, every item and every spelling of it {alias, sub-variable id, element id as "
    "int and as string, zero-based position when it is no element id; datetime: position id "
    "and value}: all public outputs must equal those under the alias spelling. Then stale and "
    "malformed references (unknown string, out-of-range and negative numbers as int and "
    "string, None, NaN) are added: nothing may change or raise, on first use and on re-use of "
    "the same transforms object. Non-trivial: the referenced slot changes the output "
    "relative to no transform." % len(TEMPLATES))
ASSUMPTIONS = [
    "ids are generated so that no higher-precedence rule captures a spelling of another item "
    "(aliases, sub-variable ids and element-id strings are pairwise distinct across kinds)",
    "a float that truncates to a valid element id is not 'a reference that matches nothing' "
    "and is not generated",
]
TECHNIQUE = "relational runtime monitor: equivalent transform spellings (one reference, and pairs of references in one transform) must give identical public outputs; bounded space enumerated"
DESIGN_REF = "DESIGN.md 4 C19"
EXHAUSTIVE = {"quick": True, "thorough": False}
REQUIRED_REACH = ["spelling_equivalence", "stale_ignored", "reuse", "mixed_spellings",
                  "class:mixed=alias+subvar_id", "class:mixed=alias+elem_id_int",
                  "class:mixed=elem_id_str+alias", "class:alias_is_another_items_subvar_id", "class:slot=hide",
                  "class:slot=rename", "class:slot=explicit", "class:slot=fixed_top",
                  "class:slot=opposing", "class:slot=derived_insertion", "class:slot=fixed_opposing",
                  "class:slot=fixed_marginal", "class:kind=mr",
                  "class:kind=ca_items", "class:kind=numarr", "class:kind=datetime",
                  "class:spelling=subvar_id", "class:spelling=elem_id_int",
                  "class:spelling=elem_id_str", "class:spelling=position"]
BATCH = 25
UNIT_TIMEOUT_S = 60


def units(tier, seed):
    out = []
    sizes = (1, 2, 3) if tier == "quick" else (1, 2, 3, 4, 5)
    reps = 1 if tier == "quick" else 5
    for rep in range(reps):
        for template in TEMPLATES:
            for n in sizes:
                for style in ("std", "scatter", "crossed", "rotated"):
                    for slot in SLOTS:
                        out.append({"template": template, "n": n, "style": style,
                                    "slot": slot, "seed": seed, "rep": rep})
    return out


def make_case(unit):
    return dict(unit)


# --------------------------------------------------------------------------------- build


def _items(g, n, prefix, style):
    """Item descriptors; 'rotated': sub-variables re-aliased after creation, so that the alias
    of item j is the sub-variable id of item j+1. The documented cascade lets the alias win:
    such a string names the item whose *alias* it is, and the element-id spellings of that
    item must agree with it (the captured sub-variable-id spelling is not tried)."""
    if style != "rotated":
        return g.items(n, prefix, style=style)
    items = g.items(n, prefix, style="std")
    for j, it in enumerate(items):
        it["subvar_id"] = "%s_r%d" % (prefix, j)
        it["alias"] = "%s_r%d" % (prefix, (j + 1) % n) if n > 1 else "%s_q0" % prefix
    return items


def _build(unit):
    g = gen.G("C19/%s/%s/%s/%s/%s" % (unit["seed"], unit["template"], unit["n"],
                                      unit["style"], unit["rep"]))
    N = 24
    template = unit["template"]
    facets = []
    array_pos = None
    for pos, p in enumerate(template.split("|")):
        if p in ("mr", "mrd"):
            v = g.mr(N, n_items=unit["n"] + (1 if p == "mrd" else 0), p_missing=0.1)
            v.items = _items(g, len(v.items), v.alias, unit["style"])
            if p == "mrd":
                # one zz9-derived item; derived insertions use their name as sub-variable id
                it = v.items[0]
                it.update({"derived": True, "anchor": "top", "name": "any of %s" % v.alias,
                           "subvar_id": "any of %s" % v.alias})
                v.view_insertions = [{"function": "any_non_missing_selected",
                                      "name": it["name"], "anchor": "top", "id": 1,
                                      "kwargs": {"variable": v.alias, "subvariable_ids": []}}]
            facets.append(("mr", v))
            if array_pos is None or template in ("cat|mr|cat",):
                array_pos = pos
        elif p in ("cai", "cac"):
            if not any(r in ("ca_items", "ca_cats") for r, _ in facets):
                ca = g.ca(N, n_items=unit["n"], n_valid=3, n_missing=1)
                ca.items = _items(g, unit["n"], ca.alias, unit["style"])
            facets.append(("ca_items" if p == "cai" else "ca_cats", ca))
            if p == "cai":
                array_pos = pos
        elif p == "numarr":
            v = g.numarr(N, n_items=unit["n"])
            facets.append(("numarr", v))
            array_pos = pos
        elif p == "datetime":
            v = g.cat(N, n_valid=unit["n"], n_missing=1, kind="datetime", p_zero=0.0)
            facets.append(("cat", v))
            array_pos = pos
        else:
            facets.append(("cat", g.cat(N, n_valid=3, n_missing=1, kind="cat", p_zero=0.0,
                                        reorder=False)))
    measures = ("mean",) if "numarr" in template else ()
    spec = sim.CubeSpec(facets, None, measures)
    return spec, array_pos


def _spellings(role, var):
    """[{spelling name: reference}] per item of the array dimension, payload order."""
    out = []
    if role == "cat":  # datetime
        for c in var.axis_cats:
            if c.get("missing"):
                continue
            out.append({"alias": c["value"], "position_id": c["id"],
                        "position_id_str": str(c["id"])})
        return out
    raw_ids = [it.get("elem_id", j) for j, it in enumerate(var.items)] if role != "numarr" \
        else list(range(len(var.items)))
    for j, it in enumerate(var.items):
        d = {"alias": it["alias"], "subvar_id": it["subvar_id"],
             "elem_id_int": raw_ids[j], "elem_id_str": str(raw_ids[j])}
        if any(x is not it and x["alias"] == it["subvar_id"] for x in var.items):
            del d["subvar_id"]  # captured by another item's alias (higher precedence)
        if j not in raw_ids and str(j) not in [str(x) for x in raw_ids]:
            d["position"] = j
        out.append(d)
    return out


def _transform_for(slot, key, okey, ref, all_alias_refs, opp_measure="count_weighted"):
    """Transforms dict using `ref` for the item of interest in `slot`."""
    if slot == "hide":
        return {key: {"elements": {str(ref) if not isinstance(ref, str) else ref:
                                   {"hide": True}}}}
    if slot == "rename":
        return {key: {"elements": {str(ref) if not isinstance(ref, str) else ref:
                                   {"name": "RENAMED"}}}}
    if slot == "explicit":
        return {key: {"order": {"type": "explicit", "element_ids": [ref]}}}
    if slot == "fixed_top":
        return {key: {"order": {"type": "label", "direction": "ascending",
                                "fixed": {"top": [ref]}}}}
    if slot == "fixed_bottom":
        return {key: {"order": {"type": "label", "fixed": {"bottom": [ref]}}}}
    if slot == "fixed_opposing":
        # the array dimension itself sorted by an element of the opposing dimension
        # (`all_alias_refs` carries that element's id), the item of interest pinned
        return {key: {"order": {"type": "opposing_element", "element_id": all_alias_refs,
                                "measure": opp_measure, "fixed": {"bottom": [ref]}}}}
    if slot == "fixed_marginal":
        return {key: {"order": {"type": "marginal", "marginal": "base", "direction": "ascending",
                                "fixed": {"top": [ref]}}}}
    if slot == "opposing":
        return {okey: {"order": {"type": "opposing_element", "element_id": ref,
                                 "measure": opp_measure}}}
    if slot == "derived_insertion":
        return {okey: {"order": {"type": "opposing_insertion", "insertion_id": ref,
                                 "measure": opp_measure}}}
    raise ValueError(slot)


def _cube(spec, tr, reuse_tr=None):
    from cr.cube.cube import Cube

    resp = json.loads(json.dumps(sim.build_response(spec)))
    t = reuse_tr if reuse_tr is not None else copy.deepcopy(tr)
    return Cube(resp, transforms=t, population=1000), t


def check_case(case):
    res = CaseResult()
    unit = case
    spec, apos = _build(unit)
    o = sim.Oracle(spec)
    nd = o.ndim
    slot = unit["slot"]
    res.classes.append("slot=%s" % slot)
    # library dimension number of the array facet
    lf = cases.library_order_facets(spec.facets)
    role, var = spec.facets[apos]
    d = [k for k, (r, v) in enumerate(lf) if v is var and r == role][0]
    kind = ("datetime" if role == "cat" else role if role != "mr" else "mr")
    res.classes.append("kind=%s" % kind)
    res.descriptor = {"template": unit["template"], "n_items": unit["n"], "style": unit["style"],
                      "slot": slot, "array_dimension": d}
    if d == 0 and nd == 3:
        res.skipped["array_on_table_axis"] += 1
        return res
    strand = nd == 1
    is_rows = strand or d == nd - 2
    key = "rows_dimension" if is_rows else "columns_dimension"
    okey = "columns_dimension" if is_rows else "rows_dimension"
    if slot in ("opposing", "derived_insertion", "fixed_opposing", "fixed_marginal") and strand:
        res.skipped["slot_needs_two_dimensions"] += 1
        return res
    spell = _spellings(role, var)
    if unit["style"] == "rotated" and role != "cat" and len(spell) > 1:
        res.classes.append("alias_is_another_items_subvar_id")
    items = list(range(len(spell)))
    if slot == "derived_insertion":
        if not (role == "mr" and any(it.get("derived") for it in var.items)) or is_rows:
            res.skipped["slot_needs_derived_mr_columns"] += 1
            return res
        items = [j for j, it in enumerate(var.items) if it.get("derived")]
    measure = "count_weighted"
    opp_ref = None
    if slot == "fixed_opposing":
        orole, ovar = lf[nd - 1 if is_rows else nd - 2]
        if orole in ("cat", "ca_cats"):
            ocats = [c for c in getattr(ovar, "axis_cats", None) or ovar.cats
                     if not c.get("missing")]
            opp_ref = ocats[-1]["id"] if ocats else 1
        else:
            opp_ref = ovar.items[-1]["alias"]
    plain, _ = _cube(spec, {})
    plain_parts = read(plain, "partitions")
    for j in items:
        ref_alias = spell[j]["alias"]
        trA = _transform_for(slot, key, okey, ref_alias, opp_ref, measure)
        cubeA, _ = _cube(spec, trA)
        pA = read(cubeA, "partitions")
        if not res.check("spelling_equivalence", pA.ok, "exception/alias_spelling/%s" % slot,
                         {"exc": repr(pA.exc), "transforms": trA}):
            continue
        # does the slot do anything at all?
        if plain_parts.ok:
            for a, b in zip(pA.value, plain_parts.value):
                for attr in ("row_labels", "column_labels", "counts"):
                    ga, gb = read(a, attr), read(b, attr)
                    if ga.ok and gb.ok and not partcmp.values_same(ga.value, gb.value)[0]:
                        res.nontrivial = True
        for name, ref in spell[j].items():
            if name == "alias":
                continue
            res.classes.append("spelling=%s" % name)
            trS = _transform_for(slot, key, okey, ref, opp_ref, measure)
            cubeS, _ = _cube(spec, trS)
            pS = read(cubeS, "partitions")
            if not res.check("spelling_equivalence", pS.ok,
                             "exception/%s/%s/%s" % (kind, slot, name),
                             {"exc": repr(pS.exc), "transforms": trS}):
                continue
            before = len(res.violations)
            for t, (a, b) in enumerate(zip(pS.value, pA.value)):
                partcmp.compare_partitions(res, a, b, "spelling_equivalence",
                                           "%s/%s/%s" % (kind, slot, name))
            if len(res.violations) > before:
                for v in res.violations[before:]:
                    if isinstance(v["detail"], dict):
                        v["detail"] = dict(v["detail"], item=j, ref=repr(ref),
                                           spellings=repr(spell[j])[:300])
        # ---- several references in one transform, each spelled its own way -------------------
        if slot in MIXED_SLOTS and len(items) >= 2:
            _mixed(res, spec, slot, key, spell, j, items, kind)
        # ---- stale / malformed references change nothing and raise nothing ------------------
        if j == items[0]:  # once per case is enough
            _stale(res, spec, slot, key, okey, ref_alias, trA, pA.value, kind, measure)
    return res


MIXED_SLOTS = ("hide", "rename", "explicit", "fixed_top", "fixed_bottom")


def _mixed_transform(slot, key, ra, rb):
    def k(r):
        return r if isinstance(r, str) else str(r)

    if slot == "hide":
        return {key: {"elements": {k(ra): {"hide": True}, k(rb): {"name": "RENAMED"}}}}
    if slot == "rename":
        return {key: {"elements": {k(ra): {"name": "RENAMED"}, k(rb): {"hide": True}}}}
    if slot == "explicit":
        return {key: {"order": {"type": "explicit", "element_ids": [ra, rb]}}}
    if slot == "fixed_top":
        return {key: {"order": {"type": "label", "direction": "ascending",
                                "fixed": {"top": [ra, rb]}}}}
    return {key: {"order": {"type": "label", "fixed": {"bottom": [ra, rb]}}}}


def _mixed(res, spec, slot, key, spell, a, items, kind):
    """Item `a` first, another item second, in ONE transform: every pair of spellings must give
    what the all-alias pair gives (a client may mix spellings; nothing says one object is
    written in one spelling)."""
    ia = items.index(a)
    for b in sorted({items[(ia + 1) % len(items)], items[ia - 1]} - {a}):  # its two neighbours
        trA = _mixed_transform(slot, key, spell[a]["alias"], spell[b]["alias"])
        cubeA, _ = _cube(spec, trA)
        pA = read(cubeA, "partitions")
        if not pA.ok:
            res.skipped["mixed_alias_baseline_raises"] += 1
            continue
        for na, ra in spell[a].items():
            for nb, rb in spell[b].items():
                if na == "alias" and nb == "alias":
                    continue
                trS = _mixed_transform(slot, key, ra, rb)
                cubeS, _ = _cube(spec, trS)
                pS = read(cubeS, "partitions")
                if not res.check("mixed_spellings", pS.ok,
                                 "exception/mixed/%s/%s" % (kind, slot),
                                 {"exc": repr(pS.exc), "transforms": trS}):
                    continue
                res.classes.append("mixed=%s+%s" % (na, nb))
                before = len(res.violations)
                for x, y in zip(pS.value, pA.value):
                    partcmp.compare_partitions(res, x, y, "mixed_spellings",
                                               "mixed/%s/%s/%s+%s" % (kind, slot, na, nb))
                for v in res.violations[before:]:
                    if isinstance(v["detail"], dict):
                        v["detail"] = dict(v["detail"], transforms=repr(trS)[:300])


def _with_stale(slot, key, okey, tr, stale):
    t = copy.deepcopy(tr)
    if slot in ("hide", "rename"):
        t[key]["elements"][str(stale)] = {"hide": True, "name": "STALE"}
    elif slot == "explicit":
        t[key]["order"]["element_ids"] = [stale] + t[key]["order"]["element_ids"] + [stale]
    elif slot == "fixed_top":
        t[key]["order"]["fixed"]["top"] = [stale] + t[key]["order"]["fixed"]["top"]
        t[key]["order"]["fixed"]["bottom"] = [stale]
    elif slot in ("fixed_bottom", "fixed_opposing"):
        t[key]["order"]["fixed"]["bottom"] = t[key]["order"]["fixed"]["bottom"] + [stale]
        t[key]["order"]["fixed"]["top"] = [stale]
    elif slot == "fixed_marginal":
        t[key]["order"]["fixed"]["top"] = [stale] + t[key]["order"]["fixed"]["top"]
        t[key]["order"]["fixed"]["bottom"] = [stale]
    return t


def _stale(res, spec, slot, key, okey, ref_alias, trA, partsA, kind, measure):
    for stale in STALE:
        if slot in ("hide", "rename") and not isinstance(stale, (str, int)):
            continue  # element-transform keys are JSON object keys
        if slot in ("opposing", "derived_insertion"):
            # a sort key that resolves to nothing falls back to the payload order
            trS = _transform_for(slot, key, okey, stale, None, measure)
            base_tr = {}
        else:
            trS = _with_stale(slot, key, okey, trA, stale)
            base_tr = trA
        label = "nan" if isinstance(stale, float) else repr(stale)
        cubeB, _ = _cube(spec, base_tr)
        pB = read(cubeB, "partitions")
        cubeS, used_tr = _cube(spec, trS)
        pS = read(cubeS, "partitions")
        if not res.check("stale_ignored", pS.ok and pB.ok, "stale/exception/%s/%s" % (
                slot, label), {"exc": repr(pS.exc), "transforms": repr(trS)[:400]}):
            continue
        ok_all = True
        before = len(res.violations)
        for a, b in zip(pS.value, pB.value):
            partcmp.compare_partitions(res, a, b, "stale_ignored",
                                       "stale/%s/%s/%s" % (kind, slot, label))
        # ---- re-use of the very same transforms object (already rewritten in place) ----------
        cubeR, _ = _cube(spec, None, reuse_tr=used_tr)
        pR = read(cubeR, "partitions")
        if not res.check("reuse", pR.ok, "reuse/exception/%s/%s" % (slot, label),
                         {"exc": repr(pR.exc), "transforms_after_first_use": repr(used_tr)[:400]}):
            continue
        for a, b in zip(pR.value, pS.value):
            partcmp.compare_partitions(res, a, b, "reuse", "reuse/%s/%s/%s" % (kind, slot,
                                                                              label))
