"""C20 - smoothing is a trailing moving average over categorical-date periods (M + contract)."""

import math

import numpy as np

from .. import cases, cmp, gen, sim, expect
from ..harness import CaseResult
from ..probe import read

ID = "C20"
TITLE = "Smoothing is a trailing moving average over categorical-date periods"
RULE = (
    "Enumerated (series length 1-8) x (window -2 .. length+3, 0 excluded: a falsy window is "
    "the documented 'unspecified -> 2') x (no empty period, one empty period at every "
    "position, two empty periods) for 2-D slices (categorical rows with and without row "
    "subtotals, MR rows; count, mean and numeric-valued responses) and 1-D strands with a "
    "mean measure; plus dimensions that are not categorical dates. Smoothed outputs are "
    "compared with the trailing mean of the *public* unsmoothed measure of a shadow partition "
    "built without the smoother. A run-time contract (icontract) on the smoothing function "
    "itself re-checks the trailing mean on every call it receives. Quick = every third "
    "configuration (offset by the seed), thorough = all. Non-trivial: categorical-date "
    "dimension, 2 <= window <= periods, at least one finite smoothed value.")
ASSUMPTIONS = [
    "window 0 / null means 'unspecified' (default 2) as the library documents; it is executed "
    "and recorded, not judged",
    "the shadow partition differs from the partition under test only by the smoother entry",
]
TECHNIQUE = "relational runtime monitor (smoothed vs trailing mean of the public unsmoothed measure) + icontract postcondition on the smoothing function; bounded space enumerated"
DESIGN_REF = "DESIGN.md 4 C20"
EXHAUSTIVE = {"quick": False, "thorough": True}
REQUIRED_REACH = ["smoothed_column_proportions", "smoothed_column_percentages",
                  "smoothed_column_index", "smoothed_means", "smoothed_columns_scale_mean",
                  "strand_smoothed_means", "unchanged_when_not_applicable", "contract_smooth",
                  "class:nan_in_series", "class:row_subtotals", "class:not_cat_date",
                  "class:window_too_large", "class:window_below_2"]
BATCH = 40
KINDS = ["cat|cat_date", "cat|cat_date+ins", "mr|cat_date", "cat|cat_date+mean",
         "cat_date(strand)+mean", "cat|cat(not date)", "cat(strand, not date)+mean",
         # periods of time that are no categorical-date dimension either
         "cat|datetime(not date)", "datetime(strand, not date)+mean", "cat|text(not date)",
         "cat|binned(not date)+mean",
         # the response also says how many valid values each mean rests on: the smoothed mean
         # stays the plain mean of the period means
         "cat_date(strand)+mean+vc", "cat|cat_date+mean+vc"]

_contract = {"evals": 0, "violations": []}


def setup_worker():
    """icontract postcondition on the real smoothing function (recording, never raising)."""
    try:
        import icontract
        from cr.cube import smoothing

        def trailing_mean_holds(self, values, result):
            _contract["evals"] += 1
            try:
                w = self._window
                v = np.asarray(values, dtype=float)
                r = np.asarray(result, dtype=float)
                if r.shape != v.shape:
                    _contract["violations"].append({"why": "shape", "in": list(v.shape),
                                                    "out": list(r.shape)})
                    return True
                from cr.cube.enums import DIMENSION_TYPE as DT
                applies = (v.size > 0 and self._dimension_type == DT.CAT_DATE
                           and 2 <= w <= v.shape[-1])
                exp = trailing(v, w) if applies else v
                ok, det = cmp.same(r, exp, rtol=1e-9, atol=1e-12)
                if not ok:
                    _contract["violations"].append({"window": w, "detail": det})
            except Exception as e:  # a contract must not disturb the workload
                _contract["violations"].append({"why": "contract error %r" % e})
            return True

        cls = smoothing._SingleSidedMovingAvgSmoother
        cls.smooth = icontract.ensure(trailing_mean_holds, error=AssertionError)(cls.smooth)
        _contract["installed"] = True
    except Exception as e:
        _contract["installed"] = False
        _contract["error"] = repr(e)


def worker_extra():
    return {"contract_installed": _contract.get("installed"),
            "contract_evaluations": _contract["evals"], "error": _contract.get("error")}


def trailing(v, w):
    """Trailing mean with window w along the last axis, NaN for the first w-1 periods."""
    v = np.asarray(v, dtype=float)
    out = np.full(v.shape, np.nan)
    n = v.shape[-1]
    for t in range(w - 1, n):
        out[..., t] = np.mean(v[..., t - w + 1:t + 1], axis=-1)
    return out


def all_configs():
    out = []
    for kind in KINDS:
        for L in range(1, 9):
            windows = [w for w in range(-2, L + 4) if w != 0]
            empties = [()] + [(p,) for p in range(L)] + ([(0, L - 1)] if L >= 3 else []) + (
                [(1, 2)] if L >= 4 else [])
            for w in windows:
                for e in empties:
                    out.append({"kind": kind, "L": L, "window": w, "empty": list(e)})
        out.append({"kind": kind, "L": 5, "window": 0, "empty": []})
        out.append({"kind": kind, "L": 5, "window": None, "empty": []})
    return out


def units(tier, seed):
    cfgs = all_configs()
    if tier == "quick":
        cfgs = cfgs[seed % 3::3]
    return [{"cfg": c, "seed": seed, "k": k} for k, c in enumerate(cfgs)]


def make_case(unit):
    cfg = unit["cfg"]
    g = gen.G("C20/%s/%s" % (unit["seed"], unit["k"]))
    L, kind = cfg["L"], cfg["kind"]
    N = 6 * L + 6
    date = "not date" not in kind
    # the time variable: L valid periods (+ a missing category), some periods empty
    cats = [{"id": k + 1, "name": "p%d" % (k + 1), "missing": False, "numeric_value": None}
            for k in range(L)]
    if date:
        # the labels are ascending, rotated (a wave appended to the variable later) or descending:
        # the window runs over the periods as the response orders them, whatever they are called
        lab = gen.stratum(ID, unit["k"], "date_labels", 3)
        for k, c in enumerate(cats):
            kk = k if lab == 0 else (k + 1) % L if lab == 1 else L - 1 - k
            c["date"] = "20%02d-01" % (10 + kk)
    cats.append({"id": 99, "name": "m", "missing": True, "numeric_value": None})
    nonempty = [k for k in range(L) if k not in cfg["empty"]] or [L]
    ans = np.array([g.pick(nonempty + [L] * 0) if nonempty != [L] else L for _ in range(N)])
    tkind = "cat_date" if date else next(
        (k_ for k_ in ("datetime", "text", "binned") if k_ in kind), "cat")
    if tkind in ("datetime", "text", "binned"):
        # enum dimensions: element ids are positions, elements carry a value
        for k, c in enumerate(cats):
            c["id"] = k
            c["value"] = ({"?": -1} if c["missing"] else
                          "20%02d-01-01" % (10 + k) if tkind == "datetime" else
                          "txt%d" % k if tkind == "text" else [k * 5, k * 5 + 5])
        tvar = sim.CatVar("wave", cats, ans, tkind, None, None,
                          resolution="D" if tkind == "datetime" else None)
    else:
        tvar = sim.CatVar("wave", cats, ans, tkind)
    tr = {}
    sm = {"function": "one_sided_moving_avg", "window": cfg["window"]}
    mset, numvar = (), None
    if "strand" in kind:
        facets = [("cat", tvar)]
        tr["rows_dimension"] = {"smoother": sm}
        mset, numvar = ("mean",), g.num(N, p_missing=0.1)
        if "+vc" in kind:
            mset, numvar = ("mean", "valid_counts"), g.num(N, p_missing=0.5)
    else:
        if kind.startswith("mr"):
            rows = ("mr", g.mr(N, n_items=3, p_missing=0.1))
        else:
            rv = g.cat(N, n_valid=g.r.randint(2, 4), n_missing=1,
                       numeric=g.pick(["all", "some", "some"]), p_zero=0.05,
                       reorder=False)
            rows = ("cat", rv)
            if "+ins" in kind:
                vids = [c["id"] for c in rv.valid_cats]
                rv.view_insertions = [
                    {"function": "subtotal", "name": "top2", "anchor": "top",
                     "args": vids[:2], "id": 1},
                    {"function": "subtotal", "name": "diff", "anchor": "bottom",
                     "kwargs": {"positive": vids[:1], "negative": vids[-1:]}, "id": 2}]
        facets = [rows, ("cat", tvar)]
        tr["columns_dimension"] = {"smoother": sm}
        if "+mean" in kind:
            mset, numvar = ("mean",), g.num(N, p_missing=0.1)
            if "+vc" in kind:
                mset, numvar = ("mean", "valid_counts"), g.num(N, p_missing=0.5)
    spec = sim.CubeSpec(facets, g.weights(N, g.pick(["none", "frac"])), mset, numvar)
    return {"spec": sim.spec_to_dict(spec), "transforms": tr, "cfg": cfg, "template": kind}


def check_case(case):
    res = CaseResult()
    cfg = case["cfg"]
    _contract["violations"] = []
    before = _contract["evals"]
    L_ = cases.realize(case)
    tr = case["transforms"]
    shadow_tr = {k: {kk: vv for kk, vv in v.items() if kk != "smoother"}
                 for k, v in tr.items()}
    caseB = dict(case)
    caseB["transforms"] = shadow_tr
    LB = cases.realize(caseB)
    o = L_.oracle
    strand = o.ndim == 1
    date = "not date" not in cfg["kind"]
    w = cfg["window"]
    res.descriptor = {"config": cfg, "n_respondents": o.N}
    part, shadow = L_.cube.partitions[0], LB.cube.partitions[0]
    periods = o.n_valid(o.ndim - 1)
    if w in (0, None):
        res.observations["O3: window %r treated as unspecified" % (w,)] += 1
        weff = 2
    else:
        weff = w
    applies = date and 2 <= weff <= periods
    if not date:
        res.classes.append("not_cat_date")
    elif weff > periods:
        res.classes.append("window_too_large")
    elif weff < 2:
        res.classes.append("window_below_2")
    if cfg["empty"]:
        res.classes.append("nan_in_series")
    finite = False
    if strand:
        pairs = [("smoothed_means", "means", "strand_smoothed_means")]
    else:
        pairs = [("smoothed_column_proportions", "column_proportions",
                  "smoothed_column_proportions"),
                 ("smoothed_column_index", "column_index", "smoothed_column_index"),
                 ("smoothed_means", "means", "smoothed_means")]
    for sattr, uattr, mon in pairs:
        gs, gu = read(part, sattr), read(shadow, uattr)
        if not gu.ok:
            # measure not in the response: the smoothed twin must refuse the same way
            res.check("same_outcome", (not gs.ok) and type(gs.exc) is type(gu.exc),
                      "outcome/%s" % sattr, {"smoothed": repr(gs)[:200]})
            continue
        if not res.check(mon, gs.ok, "exception/%s" % sattr, {"exc": repr(gs.exc), "cfg": cfg}):
            continue
        s, u = np.asarray(gs.value, dtype=float), np.asarray(gu.value, dtype=float)
        if not res.check(mon, s.shape == u.shape, "shape/%s" % sattr,
                         {"got": list(s.shape), "exp": list(u.shape)}):
            continue
        if applies and w not in (0, None):
            exp = trailing(u, weff)
            if not strand:
                V = expect.SliceView(L_, 0, part)
                subc = [j for j, e in enumerate(V.cols) if V.is_sub(e)]
                if subc:
                    exp[:, subc] = u[:, subc]
                if any(V.is_sub(e) for e in V.rows):
                    res.classes.append("row_subtotals")
            ok, det = cmp.same(s, exp, rtol=1e-9, atol=1e-12)
            res.check(mon, ok, "%s/trailing_mean" % sattr, dict(det or {}, cfg=cfg) if not ok
                      else None)
            finite |= bool(np.isfinite(s).any())
        elif w not in (0, None):
            ok, det = cmp.same(s, u, exact=True)
            res.check("unchanged_when_not_applicable", ok, "%s/changed" % sattr,
                      dict(det or {}, cfg=cfg) if not ok else None)
        else:
            ok, det = cmp.same(s, trailing(u, 2) if date and periods >= 2 else u, rtol=1e-9)
            res.observations["O3: window %r behaves as window 2: %s" % (w, ok)] += 1
    if not strand:
        # percentages are 100 x the smoothed proportions
        gp, gs = read(part, "smoothed_column_percentages"), read(part,
                                                                 "smoothed_column_proportions")
        if gp.ok and gs.ok:
            ok, det = cmp.same(gp.value, np.asarray(gs.value, dtype=float) * 100, exact=True)
            res.check("smoothed_column_percentages", ok, "smoothed_column_percentages", det)
        # smoothed scale mean = scale mean of the smoothed proportions
        gm = read(part, "smoothed_columns_scale_mean")
        um = read(shadow, "columns_scale_mean")
        role, rvar = o.facets[0]
        vals = [c.get("numeric_value") for c in rvar.valid_cats] if role == "cat" else None
        if vals is None or all(v is None for v in vals):
            res.check("smoothed_columns_scale_mean", gm.ok and gm.value is None,
                      "smoothed_columns_scale_mean/none_expected", {"got": repr(gm)[:200]})
        elif res.check("smoothed_columns_scale_mean", gm.ok and gm.value is not None,
                       "exception/smoothed_columns_scale_mean", {"got": repr(gm)[:200]}):
            g = np.asarray(gm.value, dtype=float)
            if applies and w not in (0, None) and gs.ok:
                V = expect.SliceView(L_, 0, part)
                sp = np.asarray(gs.value, dtype=float)
                rb = [i for i, e in enumerate(V.rows) if not V.is_sub(e)]
                cb = [j for j, e in enumerate(V.cols) if not V.is_sub(e)]
                v = np.array([float("nan") if x is None else float(x) for x in vals])
                exp = []
                for j in cb:
                    col = sp[rb, j]
                    m = ~np.isnan(v)
                    den = np.sum(col[m])
                    with np.errstate(divide="ignore", invalid="ignore"):
                        exp.append(np.nansum(v * col) / den if not np.isnan(den) else np.nan)
                ok, det = cmp.same(g[cb], np.array(exp), rtol=1e-9, atol=1e-12)
                res.check("smoothed_columns_scale_mean", ok,
                          "smoothed_columns_scale_mean/of_smoothed_proportions",
                          dict(det or {}, cfg=cfg) if not ok else None)
            elif w not in (0, None) and um.ok and um.value is not None:
                ok, det = cmp.same(g, um.value, exact=True)
                res.check("unchanged_when_not_applicable", ok,
                          "smoothed_columns_scale_mean/changed", det)
    # the contract on the smoothing function saw every call of this case
    res.monitors["contract_smooth"] += _contract["evals"] - before
    for v in _contract["violations"]:
        res.check("contract_smooth", False, "contract/smooth", dict(v, cfg=cfg))
    res.nontrivial = applies and finite
    return res
