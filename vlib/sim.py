"""Survey simulator, response builder ("zz9sim") and respondent-level oracle.

Three things live here (DESIGN.md 2.1-2.3):

* variables + respondents (`CatVar`, `MRVar`, `CAVar`, `NumArrVar`, `NumVar`, `Survey`);
* `build_response(spec)`: the JSON cube response for a query over a survey, in the layout the
  Crunch back end uses (one-hot per variable contracted over respondents with einsum);
* `Oracle(spec)`: the same quantities from *set membership* of respondents (boolean masks over
  respondents, never the tensor, an axis number or a slice expression).

A query (`CubeSpec`) is an ordered list of facets. A facet is one *apparent* dimension:
("cat", var) | ("mr", var) | ("ca_items", var) | ("ca_cats", var) | ("numarr", var).
"""

import copy
import math

import numpy as np

SEL, OTH, MIS = 0, 1, 2


# ----------------------------------------------------------------------------- variables


class CatVar:
    """Categorical-like variable (cat, cat_date, logical, text, datetime, binned)."""

    def __init__(self, alias, cats, ans, kind="cat", view_insertions=None,
                 data_order=None, name=None, description=None, resolution=None):
        self.alias = alias
        self.name = name if name is not None else alias.upper()
        self.description = description
        self.kind = kind
        # cats: typedef-order list of dict(id, name, missing, numeric_value[, date][, value])
        self.cats = cats
        self.ans = np.asarray(ans, dtype=int)  # typedef index per respondent
        self.view_insertions = view_insertions
        # data_order: typedef indices in the order the data axis is laid out; when it is not
        # the identity the typedef carries an "order" list of ids.
        self.data_order = list(range(len(cats))) if data_order is None else list(data_order)
        self.resolution = resolution

    @property
    def n(self):
        return len(self.ans)

    @property
    def axis_cats(self):
        """Category dicts in data-axis order."""
        return [self.cats[j] for j in self.data_order]

    @property
    def valid_axis_positions(self):
        return [p for p, c in enumerate(self.axis_cats) if not c.get("missing")]

    @property
    def valid_cats(self):
        return [c for c in self.axis_cats if not c.get("missing")]

    def restrict(self, keep):
        v = copy.copy(self)
        v.ans = self.ans[keep]
        return v


class MRVar:
    def __init__(self, alias, items, state, name=None, view_insertions=None):
        self.alias = alias
        self.name = name if name is not None else alias.upper()
        # items: list of dict(alias, name, subvar_id, elem_id, derived, anchor)
        self.items = items
        self.state = np.asarray(state, dtype=int)  # (N, n_items) in {SEL, OTH, MIS}
        self.view_insertions = view_insertions

    @property
    def n(self):
        return self.state.shape[0]

    def restrict(self, keep):
        v = copy.copy(self)
        v.state = self.state[keep]
        return v


class CAVar:
    def __init__(self, alias, items, cats, ans, name=None, view_insertions=None):
        self.alias = alias
        self.name = name if name is not None else alias.upper()
        self.items = items
        self.cats = cats  # like CatVar.cats (typedef order == data order)
        self.ans = np.asarray(ans, dtype=int)  # (N, n_items) index into cats
        self.view_insertions = view_insertions
        self.kind = "ca_cats"

    @property
    def n(self):
        return self.ans.shape[0]

    @property
    def axis_cats(self):
        return self.cats

    @property
    def valid_axis_positions(self):
        return [p for p, c in enumerate(self.cats) if not c.get("missing")]

    @property
    def valid_cats(self):
        return [c for c in self.cats if not c.get("missing")]

    def restrict(self, keep):
        v = copy.copy(self)
        v.ans = self.ans[keep]
        return v


class NumArrVar:
    def __init__(self, alias, items, x, name=None):
        self.alias = alias
        self.name = name if name is not None else alias.upper()
        self.items = items  # list of dict(alias, name, subvar_id)
        self.x = np.asarray(x, dtype=float)  # (N, n_items), nan = missing

    @property
    def n(self):
        return self.x.shape[0]

    def restrict(self, keep):
        v = copy.copy(self)
        v.x = self.x[keep]
        return v


class NumVar:
    def __init__(self, alias, x, name=None):
        self.alias = alias
        self.name = name if name is not None else alias.upper()
        self.x = np.asarray(x, dtype=float)

    def restrict(self, keep):
        v = copy.copy(self)
        v.x = self.x[keep]
        return v


class CubeSpec:
    """A query over a survey.

    facets: list of (role, var). weight: None or (N,) array. measures: subset of
    {"mean","sum","stddev","median","valid_counts","sq_weights","overlap"}; numvar: NumVar for
    the numeric measures (ignored when a "numarr" facet is present: then the array is the
    measured variable). extra: dict merged into "result" (filter stats etc.).
    """

    def __init__(self, facets, weight=None, measures=(), numvar=None, extra=None,
                 with_count_measure=True, title=None):
        self.facets = list(facets)
        self.weight = None if weight is None else np.asarray(weight, dtype=float)
        self.measures = set(measures)
        self.numvar = numvar
        self.extra = dict(extra or {})
        self.with_count_measure = with_count_measure
        self.title = title

    @property
    def n(self):
        return self.facets[0][1].n if self.facets else (
            len(self.numvar.x) if self.numvar is not None else 0)

    @property
    def numarr(self):
        for role, v in self.facets:
            if role == "numarr":
                return v
        return None

    def restrict(self, keep):
        """Same query on the sub-survey `keep` (boolean mask or index array)."""
        cache = {}

        def r(v):
            if v is None:
                return None
            if id(v) not in cache:
                cache[id(v)] = v.restrict(keep)
            return cache[id(v)]

        s = copy.copy(self)
        s.facets = [(role, r(v)) for role, v in self.facets]
        s.weight = None if self.weight is None else self.weight[keep]
        s.numvar = r(self.numvar)
        s.extra = copy.deepcopy(self.extra)
        return s


# ------------------------------------------------------------------- dimension dictionaries

MR_CATS = [
    {"id": 1, "name": "Selected", "selected": True, "missing": False, "numeric_value": 1},
    {"id": 0, "name": "Other", "missing": False, "numeric_value": 0},
    {"id": -1, "name": "No Data", "missing": True, "numeric_value": None},
]


def _cat_dict(c):
    d = {"id": c["id"], "name": c["name"], "missing": bool(c.get("missing", False)),
         "numeric_value": c.get("numeric_value")}
    if "date" in c:
        d["date"] = c["date"]
    if c.get("selected"):
        d["selected"] = True
    return d


def _subrefs(items):
    return [{"alias": it["alias"], "name": it["name"]} for it in items]


def _items_dim(var, derived_ok=True):
    elements = []
    for it in var.items:
        value = {"id": it["subvar_id"], "derived": bool(it.get("derived", False)),
                 "references": {"alias": it["alias"], "name": it["name"]}}
        if it.get("anchor") is not None:
            value["references"]["anchor"] = it["anchor"]
        elements.append({"id": it["elem_id"], "value": value, "missing": False})
    refs = {"alias": var.alias, "name": var.name, "subreferences": _subrefs(var.items)}
    if getattr(var, "view_insertions", None) is not None and isinstance(var, MRVar):
        refs["view"] = {"transform": {"insertions": var.view_insertions}}
    return {"derived": True, "references": refs,
            "type": {"class": "enum", "subtype": {"class": "variable"}, "elements": elements}}


def dimension_dicts(role, var):
    """List of cube dimension dicts contributed by one facet (MR contributes two)."""
    if role == "cat":
        refs = {"alias": var.alias, "name": var.name}
        if var.description is not None:
            refs["description"] = var.description
        if var.view_insertions is not None:
            refs["view"] = {"transform": {"insertions": var.view_insertions}}
        if var.kind in ("cat", "cat_date", "logical"):
            typedef = {"class": "categorical", "ordinal": False,
                       "categories": [_cat_dict(c) for c in var.cats]}
            if var.data_order != list(range(len(var.cats))):
                typedef["order"] = [var.cats[j]["id"] for j in var.data_order]
            return [{"derived": False, "references": refs, "type": typedef}]
        # enum kinds
        sub = {"text": {"class": "text"},
               "datetime": {"class": "datetime", "resolution": var.resolution or "D"},
               "binned": {"class": "numeric"}}[var.kind]
        elements = [{"id": c["id"], "value": c["value"], "missing": bool(c.get("missing"))}
                    for c in var.cats]
        typedef = {"class": "enum", "subtype": dict(sub), "elements": elements}
        if var.data_order != list(range(len(var.cats))):
            typedef["order"] = [var.cats[j]["id"] for j in var.data_order]
        return [{"derived": True, "references": refs, "type": typedef}]
    if role == "mr":
        sel = {"derived": True,
               "references": {"alias": var.alias, "name": var.name,
                              "subreferences": _subrefs(var.items)},
               "type": {"class": "categorical", "ordinal": False,
                        "subvariables": [it["subvar_id"] for it in var.items],
                        "categories": copy.deepcopy(MR_CATS)}}
        return [_items_dim(var), sel]
    if role == "ca_items":
        return [_items_dim(var)]
    if role == "ca_cats":
        refs = {"alias": var.alias, "name": var.name, "subreferences": _subrefs(var.items)}
        if var.view_insertions is not None:
            refs["view"] = {"transform": {"insertions": var.view_insertions}}
        return [{"derived": False, "references": refs,
                 "type": {"class": "categorical", "ordinal": False,
                          "subvariables": [it["subvar_id"] for it in var.items],
                          "categories": [_cat_dict(c) for c in var.cats]}}]
    if role == "numarr":
        return []  # synthesised by the library from the measure metadata
    raise ValueError(role)


# -------------------------------------------------------------------------------- builder

_LETTERS = "abcdefghjklmnopqrstuvwxyz"  # no 'i' (respondent axis)


def _onehot(idx, n):
    o = np.zeros((len(idx), n))
    if len(idx):
        o[np.arange(len(idx)), idx] = 1.0
    return o


def _operands(spec, numarr_arr=None):
    """einsum operands per variable + output subscripts in cube dimension order.

    Returns (ops, out_letters, shape) where ops is a list of (subscripts, array).
    The numeric-array item axis comes last in the output whatever its facet position.
    """
    ops = []
    by_var = {}
    out = []
    tail = []
    li = iter(_LETTERS)
    for role, var in spec.facets:
        if role == "cat":
            L = next(li)
            inv = {j: p for p, j in enumerate(var.data_order)}
            pos = np.array([inv[j] for j in var.ans], dtype=int)
            ops.append(("i" + L, _onehot(pos, len(var.cats))))
            out.append(L)
        elif role == "mr":
            a, b = next(li), next(li)
            t = np.zeros(var.state.shape + (3,))
            for s in range(var.state.shape[1]):
                t[np.arange(var.n), s, var.state[:, s]] = 1.0
            ops.append(("i" + a + b, t))
            out += [a, b]
        elif role in ("ca_items", "ca_cats"):
            if id(var) not in by_var:
                a, b = next(li), next(li)
                t = np.zeros(var.ans.shape + (len(var.cats),))
                for s in range(var.ans.shape[1]):
                    t[np.arange(var.n), s, var.ans[:, s]] = 1.0
                by_var[id(var)] = (a, b)
                ops.append(("i" + a + b, t))
            a, b = by_var[id(var)]
            out.append(a if role == "ca_items" else b)
        elif role == "numarr":
            a = next(li)
            ops.append(("i" + a, (~np.isnan(var.x)).astype(float)
                        if numarr_arr is None else numarr_arr))
            tail.append(a)
        else:
            raise ValueError(role)
    # a CA variable used through one facet only: the other axis must be summed out - it is
    # not (every respondent has exactly one category per item) so nothing to do for cats;
    # an items-only use is not generated.
    return ops, "".join(out + tail), None


def _contract(spec, per_resp):
    """Contract per-respondent scalar `per_resp` (N,) over respondents."""
    ops, out, _ = _operands(spec)
    subs = ",".join(["i"] + [s for s, _ in ops]) + "->" + out
    return np.einsum(subs, per_resp, *[a for _, a in ops])


def _contract_extra(spec, per_resp, extra):
    """Like _contract, with one more trailing axis from `extra` (N, k)."""
    ops, out, _ = _operands(spec)
    subs = ",".join(["i"] + [s for s, _ in ops] + ["iz"]) + "->" + out + "z"
    return np.einsum(subs, per_resp, *([a for _, a in ops] + [extra]))


def _flat(a):
    return [float(x) for x in np.asarray(a, dtype=float).ravel()]


def _as_json_number(x):
    x = float(x)
    if x == int(x) and abs(x) < 2 ** 53:
        return int(x)
    return x


def _numeric_payload(values, valid):
    out = []
    for v, ok in zip(np.asarray(values, dtype=float).ravel(), np.asarray(valid).ravel()):
        out.append(float(v) if ok and not math.isnan(v) else {"?": -8})
    return out


def weighted_median(x, w):
    """Deterministic weighted median used for the 'median' cube measure (pass-through)."""
    if len(x) == 0:
        return float("nan")
    order = np.argsort(x, kind="stable")
    x = np.asarray(x)[order]
    w = np.asarray(w)[order]
    tot = w.sum()
    if tot <= 0:
        return float("nan")
    c = np.cumsum(w)
    k = int(np.argmax(c >= tot / 2.0))
    return float(x[k])


def _measure_metadata(spec):
    na = spec.numarr
    if na is not None:
        return {"derived": True,
                "references": {"alias": na.alias, "name": na.name, "uniform_basis": False,
                               "subreferences": _subrefs(na.items)},
                "type": {"class": "numeric", "integer": False,
                         "subvariables": [it["subvar_id"] for it in na.items],
                         "missing_reasons": {"No Data": -1, "NaN": -8}, "missing_rules": {}}}
    md = {"derived": True, "references": {},
          "type": {"class": "numeric", "integer": False,
                   "missing_reasons": {"No Data": -1, "NaN": -8}, "missing_rules": {}}}
    if spec.numvar is not None:
        md["references"] = {"alias": spec.numvar.alias, "name": spec.numvar.name}
    return md


def build_response(spec, envelope=None):
    """JSON-able cube response dict for `spec`."""
    N = spec.n
    w = np.ones(N) if spec.weight is None else spec.weight
    ones = np.ones(N)
    dims = []
    for role, var in spec.facets:
        dims += dimension_dicts(role, var)
    na = spec.numarr
    measures = {}
    result = {"dimensions": dims, "element": "crunch:cube"}

    if na is None:
        ucounts = _contract(spec, ones)
        wcounts = _contract(spec, w)
        result["counts"] = [_as_json_number(x) for x in ucounts.ravel()]
        if spec.with_count_measure:
            measures["count"] = {
                "data": [_as_json_number(x) for x in (wcounts if spec.weight is not None
                                                     else ucounts).ravel()],
                "n_missing": 0,
                "metadata": {"derived": True, "references": {},
                             "type": {"class": "numeric", "integer": spec.weight is None,
                                      "missing_reasons": {"No Data": -1},
                                      "missing_rules": {}}}}
        if "sq_weights" in spec.measures:
            measures["weighted_squared_count"] = {
                "data": _flat(_contract(spec, w * w)), "n_missing": 0}
        if "overlap" in spec.measures and spec.facets and spec.facets[-1][0] == "mr":
            mrv = spec.facets[-1][1]
            sel_ = (mrv.state == SEL).astype(float)
            ans_ = (mrv.state != MIS).astype(float)
            omd = {"derived": True,
                   "references": {"alias": mrv.alias, "name": mrv.name,
                                  "subreferences": _subrefs(mrv.items)},
                   "type": {"class": "numeric", "integer": spec.weight is None,
                            "subvariables": [it["subvar_id"] for it in mrv.items],
                            "missing_reasons": {"No Data": -1}, "missing_rules": {}}}
            measures["overlap"] = {"data": _flat(_contract_extra(spec, w, sel_)),
                                   "n_missing": 0, "metadata": omd}
            measures["valid_overlap"] = {"data": _flat(_contract_extra(spec, w, ans_)),
                                         "n_missing": 0, "metadata": copy.deepcopy(omd)}
        xv = spec.numvar
        if xv is not None and spec.measures & {"mean", "sum", "stddev", "median",
                                                "valid_counts"}:
            ok = ~np.isnan(xv.x)
            x0 = np.where(ok, xv.x, 0.0)
            okf = ok.astype(float)
            vu = _contract(spec, okf)
            vw = _contract(spec, w * okf)
            sx = _contract(spec, w * x0)
            sxx = _contract(spec, w * x0 * x0)
            md = _measure_metadata(spec)
            nmiss = int((~ok).sum())
            with np.errstate(divide="ignore", invalid="ignore"):
                mean = sx / vw
                var_ = sxx / vw - mean * mean
            if "mean" in spec.measures:
                measures["mean"] = {"data": _numeric_payload(mean, vw > 0),
                                    "n_missing": nmiss, "metadata": md}
            if "sum" in spec.measures:
                measures["sum"] = {"data": _numeric_payload(sx, vu > 0),
                                   "n_missing": nmiss, "metadata": md}
            if "stddev" in spec.measures:
                sd = np.sqrt(np.maximum(var_, 0.0))
                measures["stddev"] = {"data": _numeric_payload(sd, vw > 0),
                                      "n_missing": nmiss, "metadata": md}
            if "median" in spec.measures:
                med = _cellwise(spec, lambda m: weighted_median(xv.x[m & ok], w[m & ok]))
                measures["median"] = {"data": _numeric_payload(med, ~np.isnan(med)),
                                      "n_missing": nmiss, "metadata": md}
            if "valid_counts" in spec.measures:
                measures["valid_count_unweighted"] = {
                    "data": [_as_json_number(x) for x in vu.ravel()],
                    "n_missing": nmiss, "metadata": md}
                if spec.weight is not None and "vc_unweighted_only" not in spec.measures:
                    measures["valid_count_weighted"] = {
                        "data": _flat(vw), "n_missing": nmiss, "metadata": md}
        result["n"] = int(N)
        result["missing"] = 0
    else:
        # numeric array: the array is the measured variable; its item axis is last
        ok = ~np.isnan(na.x)
        x0 = np.where(ok, na.x, 0.0)
        def con(per_resp, item_arr):
            ops, out, _ = _operands(spec, numarr_arr=item_arr)
            subs = ",".join(["i"] + [s for s, _ in ops]) + "->" + out
            return np.einsum(subs, per_resp, *[a for _, a in ops])

        okf = ok.astype(float)
        vu = con(ones, okf)
        vw = con(w, okf)
        sx = con(w, x0)
        sxx = con(w, x0 * x0)
        md = _measure_metadata(spec)
        with np.errstate(divide="ignore", invalid="ignore"):
            mean = sx / vw
            var_ = sxx / vw - mean * mean
        measures["valid_count_unweighted"] = {
            "data": [_as_json_number(x) for x in vu.ravel()], "n_missing": 0, "metadata": md}
        if spec.weight is not None:
            measures["valid_count_weighted"] = {"data": _flat(vw), "n_missing": 0,
                                                "metadata": md}
        if "mean" in spec.measures:
            measures["mean"] = {"data": _numeric_payload(mean, vw > 0), "n_missing": 0,
                                "metadata": md}
        if "sum" in spec.measures:
            measures["sum"] = {"data": _numeric_payload(sx, vu > 0), "n_missing": 0,
                               "metadata": md}
        if "stddev" in spec.measures:
            measures["stddev"] = {"data": _numeric_payload(np.sqrt(np.maximum(var_, 0)), vw > 0),
                                  "n_missing": 0, "metadata": md}
        if "median" in spec.measures:
            med = _cellwise_numarr(spec, w)
            measures["median"] = {"data": _numeric_payload(med, ~np.isnan(med)),
                                  "n_missing": 0, "metadata": md}
        # counts over the non-array dimensions only (as the back end sends them)
        other = CubeSpec([f for f in spec.facets if f[0] != "numarr"], spec.weight)
        if other.facets:
            oc = _contract(other, ones)
            result["counts"] = [_as_json_number(x) for x in oc.ravel()]
            if spec.with_count_measure and "count" in spec.measures:
                measures["count"] = {"data": [_as_json_number(x) for x in oc.ravel()],
                                     "n_missing": 0}
        else:
            result["counts"] = [int(N)]
        result["n"] = int(N)
        result["missing"] = 0

    result["measures"] = measures
    if spec.title is not None:
        result["title"] = spec.title
    for k, v in spec.extra.items():
        result[k] = copy.deepcopy(v)
    resp = {"result": result}
    if envelope == "value":
        return {"element": "shoji:view", "value": resp}
    return resp


def _cell_masks(spec):
    """Boolean membership tensor (N, *cube shape without numarr) by outer products."""
    ops, out, _ = _operands(CubeSpec([f for f in spec.facets if f[0] != "numarr"]))
    subs = ",".join(s for s, _ in ops) + "->i" + out
    if not ops:
        return np.ones((spec.n,), dtype=bool)
    return np.einsum(subs, *[a for _, a in ops]) > 0.5


def _cellwise(spec, fn):
    M = _cell_masks(spec)
    shape = M.shape[1:]
    flat = M.reshape(M.shape[0], int(np.prod(shape)))
    out = np.array([fn(flat[:, k]) for k in range(flat.shape[1])], dtype=float)
    return out.reshape(shape)


def _cellwise_numarr(spec, w):
    na = spec.numarr
    M = _cell_masks(spec)
    shape = M.shape[1:]
    flat = M.reshape(M.shape[0], int(np.prod(shape)))
    out = np.empty((flat.shape[1], na.x.shape[1]))
    for k in range(flat.shape[1]):
        for s in range(na.x.shape[1]):
            m = flat[:, k] & ~np.isnan(na.x[:, s])
            out[k, s] = weighted_median(na.x[m, s], w[m])
    return out.reshape(shape + (na.x.shape[1],))


# --------------------------------------------------------------------------------- oracle


class Oracle:
    """Respondent-level answers for the query `spec` by set membership.

    Apparent dimensions are numbered in *library* order: the numeric-array facet, which the
    library synthesises and puts first, is dimension 0 when present; the others follow in
    query order. A *selection* maps dimension number -> element, where an element is an int
    (index among the valid elements in payload order) or a tuple ("sub", addends, subtrahends)
    of such indices. `free` lists the dimensions summed over "eligible" respondents.
    """

    def __init__(self, spec):
        self.spec = spec
        facets = list(spec.facets)
        na = [f for f in facets if f[0] == "numarr"]
        self.facets = na + [f for f in facets if f[0] != "numarr"]
        self.N = spec.n
        self.w = np.ones(self.N) if spec.weight is None else spec.weight
        xv = spec.numvar
        self.xok = None
        if xv is not None and spec.numarr is None and "valid_counts" in spec.measures:
            self.xok = ~np.isnan(xv.x)
            if "vc_unweighted_only" in spec.measures:
                # a weighted response that carries unweighted valid counts only: they are
                # the counts every counting measure of the analysis is computed from
                self.w = np.ones(self.N)

    # -- structure -------------------------------------------------------------------
    @property
    def ndim(self):
        return len(self.facets)

    def n_valid(self, d):
        role, var = self.facets[d]
        if role == "cat":
            return len(var.valid_axis_positions)
        if role == "ca_cats":
            return len(var.valid_axis_positions)
        if role in ("mr", "ca_items", "numarr"):
            return len(var.items)
        raise ValueError(role)

    def typestr(self, d):
        role = self.facets[d][0]
        return {"cat": "CAT", "ca_cats": "CAT", "mr": "MR", "ca_items": "ARR",
                "numarr": "ARR"}[role]

    def _partner(self, d):
        """Dimension number of the other facet of the same CA variable, or None."""
        role, var = self.facets[d]
        if role not in ("ca_items", "ca_cats"):
            return None
        for e, (r2, v2) in enumerate(self.facets):
            if e != d and v2 is var and r2 in ("ca_items", "ca_cats"):
                return e
        return None

    # -- masks -----------------------------------------------------------------------
    def _cat_mask(self, var, elem):
        """Members of valid element index `elem` of a CatVar."""
        typedef_idx = var.data_order[var.valid_axis_positions[elem]]
        return var.ans == typedef_idx

    def _cat_valid(self, var):
        valid = [var.data_order[p] for p in var.valid_axis_positions]
        return np.isin(var.ans, valid)

    def mask(self, sel, free=(), mr_other=()):
        """Respondents counted for selection `sel` with dimensions in `free` freed.

        Every dimension of the cube must be in `sel` (with a base element index) or `free`.
        `mr_other`: MR dimensions for which the *not selected* (other) answer is meant
        (only needed for the cube-level arrays, which keep the selection axis).
        """
        m = np.ones(self.N, dtype=bool)
        done = set()
        for d, (role, var) in enumerate(self.facets):
            if d in done:
                continue
            if role == "cat":
                if d in free:
                    m &= self._cat_valid(var)
                else:
                    m &= self._cat_mask(var, sel[d])
            elif role == "mr":
                s = sel[d]
                if d in free:
                    m &= var.state[:, s] != MIS
                elif d in mr_other:
                    m &= var.state[:, s] == OTH
                else:
                    m &= var.state[:, s] == SEL
            elif role == "numarr":
                m &= ~np.isnan(var.x[:, sel[d]])
            elif role in ("ca_items", "ca_cats"):
                p = self._partner(d)
                di, dk = (d, p) if role == "ca_items" else (p, d)
                done.add(p)
                s = sel[di]  # items are never freed (no summing across sub-variables)
                validpos = var.valid_axis_positions
                if dk is None or dk in free:
                    m &= np.isin(var.ans[:, s], validpos)
                else:
                    m &= var.ans[:, s] == validpos[sel[dk]]
        if self.xok is not None:
            m = m & self.xok
        return m

    def total(self, sel, free=(), weighted=True, mr_other=()):
        m = self.mask(sel, free, mr_other)
        return float(self.w[m].sum()) if weighted else float(m.sum())

    # -- element algebra (subtotals) -------------------------------------------------
    @staticmethod
    def _terms(elem):
        """[(sign, base index)] for an element (int or ('sub', addends, subtrahends))."""
        if isinstance(elem, tuple):
            return [(1, a) for a in elem[1]] + [(-1, b) for b in elem[2]]
        return [(1, elem)]

    def count(self, sel, weighted=True):
        """Signed count of a cell whose elements may be subtotals (sum/diff of base cells)."""
        dims = sorted(sel)
        tot = 0.0

        def rec(k, cur, sign):
            nonlocal tot
            if k == len(dims):
                tot += sign * self.total(cur, (), weighted)
                return
            for sg, b in self._terms(sel[dims[k]]):
                cur[dims[k]] = b
                rec(k + 1, cur, sign * sg)

        rec(0, {}, 1)
        return tot

    def base(self, sel, free, weighted=True):
        """Base for a cell: dimensions in `free` are freed, the others are fixed at `sel`.

        A fixed subtotal element contributes the union (sum) of its addends; a fixed
        difference has no base in this direction -> nan.
        """
        dims = [d for d in sorted(sel) if d not in free]
        for d in dims:
            if isinstance(sel[d], tuple) and sel[d][2]:
                return float("nan")
        tot = 0.0

        def rec(k, cur):
            nonlocal tot
            if k == len(dims):
                full = dict(cur)
                for d in free:
                    full[d] = self._first_base(sel.get(d, 0))
                tot += self.total(full, free, weighted)
                return
            e = sel[dims[k]]
            for b in (e[1] if isinstance(e, tuple) else [e]):
                cur[dims[k]] = b
                rec(k + 1, cur)

        rec(0, {})
        return tot

    @staticmethod
    def _first_base(elem):
        # freed MR/ARR dimensions still need the element (item) the cell sits at
        if isinstance(elem, tuple):
            return elem[1][0] if elem[1] else (elem[2][0] if elem[2] else 0)
        return elem

    # -- numeric statistics of a cell ---------------------------------------------------
    def numeric(self, sel, stat):
        """mean / sum / stddev / median / valid_u / valid_w of the measured variable."""
        spec = self.spec
        na = spec.numarr
        if na is not None:
            x = na.x[:, sel[0]]
        else:
            x = spec.numvar.x
        base = self.mask(sel)
        m = base & ~np.isnan(x)
        w = self.w[m]
        xv = x[m]
        if stat == "valid_u":
            return float(m.sum())
        if stat == "valid_w":
            return float(w.sum())
        if stat == "sum":
            return float((w * xv).sum()) if m.sum() > 0 else float("nan")
        if w.sum() <= 0:
            return float("nan")
        mean = float((w * xv).sum() / w.sum())
        if stat == "mean":
            return mean
        if stat == "stddev":
            v = float((w * xv * xv).sum() / w.sum()) - mean * mean
            return math.sqrt(max(v, 0.0))
        if stat == "median":
            return weighted_median(xv, w)
        raise ValueError(stat)


# ---------------------------------------------------------------------- (de)serialisation


def _arr(a):
    a = np.asarray(a)
    if a.dtype.kind == "f":
        return [[None if math.isnan(x) else float(x) for x in row] for row in a] \
            if a.ndim == 2 else [None if math.isnan(x) else float(x) for x in a]
    return a.tolist()


def _farr(lst):
    def f(x):
        return float("nan") if x is None else float(x)
    if lst and isinstance(lst[0], list):
        return np.array([[f(x) for x in row] for row in lst], dtype=float).reshape(
            len(lst), len(lst[0]) if lst else 0)
    return np.array([f(x) for x in lst], dtype=float)


def var_to_dict(v):
    if isinstance(v, CatVar):
        return {"t": "cat", "alias": v.alias, "name": v.name, "description": v.description,
                "kind": v.kind, "cats": v.cats, "ans": _arr(v.ans),
                "view_insertions": v.view_insertions, "data_order": v.data_order,
                "resolution": v.resolution}
    if isinstance(v, MRVar):
        return {"t": "mr", "alias": v.alias, "name": v.name, "items": v.items,
                "state": _arr(v.state), "view_insertions": v.view_insertions}
    if isinstance(v, CAVar):
        return {"t": "ca", "alias": v.alias, "name": v.name, "items": v.items,
                "cats": v.cats, "ans": _arr(v.ans), "view_insertions": v.view_insertions}
    if isinstance(v, NumArrVar):
        return {"t": "numarr", "alias": v.alias, "name": v.name, "items": v.items,
                "x": _arr(v.x)}
    if isinstance(v, NumVar):
        return {"t": "num", "alias": v.alias, "name": v.name, "x": _arr(v.x)}
    raise TypeError(type(v))


def var_from_dict(d):
    t = d["t"]
    if t == "cat":
        return CatVar(d["alias"], d["cats"], np.array(d["ans"], dtype=int), d["kind"],
                      d["view_insertions"], d["data_order"], d["name"], d["description"],
                      d.get("resolution"))
    if t == "mr":
        st = np.array(d["state"], dtype=int).reshape(len(d["state"]), len(d["items"]))
        return MRVar(d["alias"], d["items"], st, d["name"], d["view_insertions"])
    if t == "ca":
        an = np.array(d["ans"], dtype=int).reshape(len(d["ans"]), len(d["items"]))
        return CAVar(d["alias"], d["items"], d["cats"], an, d["name"], d["view_insertions"])
    if t == "numarr":
        x = _farr(d["x"]).reshape(len(d["x"]), len(d["items"]))
        return NumArrVar(d["alias"], d["items"], x, d["name"])
    if t == "num":
        return NumVar(d["alias"], _farr(d["x"]), d["name"])
    raise ValueError(t)


def spec_to_dict(spec):
    vars_ = []
    idx = {}

    def ref(v):
        if v is None:
            return None
        if id(v) not in idx:
            idx[id(v)] = len(vars_)
            vars_.append(var_to_dict(v))
        return idx[id(v)]

    return {"facets": [[role, ref(v)] for role, v in spec.facets],
            "weight": None if spec.weight is None else _arr(spec.weight),
            "measures": sorted(spec.measures), "numvar": ref(spec.numvar),
            "extra": spec.extra, "with_count_measure": spec.with_count_measure,
            "title": spec.title, "vars": vars_}


def spec_from_dict(d):
    vars_ = [var_from_dict(v) for v in d["vars"]]
    return CubeSpec([(role, vars_[k]) for role, k in d["facets"]],
                    None if d["weight"] is None else _farr(d["weight"]),
                    d["measures"], None if d["numvar"] is None else vars_[d["numvar"]],
                    d["extra"], d["with_count_measure"], d.get("title"))
