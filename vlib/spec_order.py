"""Executable specification of insertion resolution and anchored ordering (C04, C07).

Written from the property statements, independent of the library's collators:

* which insertion dicts are subtotals at all, their addend / subtrahend element positions,
  their normalised anchors and their ids;
* the anchored display order: base elements in payload or explicit order, every subtotal right
  after its anchor element, `top` first, `bottom` / None / stale anchors last, definition order
  within one anchor; hidden / pruned base elements removed at the end.
"""


def _positive(ins):
    kw = ins.get("kwargs", {}) or {}
    return kw.get("positive") or ins.get("args", []) or []


def _negative(ins):
    kw = ins.get("kwargs", {}) or {}
    return kw.get("negative", []) or []


def norm_anchor(anchor, valid_ids):
    """'top' | 'bottom' | element id (a valid one)."""
    if anchor is None:
        return "bottom"
    try:
        a = int(anchor)
    except (TypeError, ValueError):
        return str(anchor).lower()
    return a if a in valid_ids else "bottom"


def valid_subtotals(insertion_dicts, valid_ids, from_view=True):
    """Resolved subtotals, in definition order.

    Each: dict(name, anchor, addends, subtrahends (positions among valid elements, payload
    order), id, raw). `valid_ids` is the list of valid element ids in payload order.
    """
    vset = set(valid_ids)
    kept = []
    for ins in insertion_dicts or []:
        if not isinstance(ins, dict):
            continue
        if ins.get("function") != "subtotal":
            continue
        if ins.get("hide") is True:
            continue
        if "anchor" not in ins or "name" not in ins:
            continue
        pos, neg = list(_positive(ins)), list(_negative(ins))
        if not (pos or neg):
            continue
        if not (vset & set(x for x in pos + neg if _hashable(x))):
            continue
        kept.append(ins)
    out = []
    for ins in kept:
        pos, neg = list(_positive(ins)), list(_negative(ins))
        addends = [p for p, eid in enumerate(valid_ids) if eid in [x for x in pos]]
        subtrahends = [p for p, eid in enumerate(valid_ids) if eid in [x for x in neg]]
        out.append({"name": ins.get("name") or "", "anchor": norm_anchor(ins["anchor"], vset),
                    "addends": addends, "subtrahends": subtrahends, "id": ins.get("id"),
                    "has_id": "id" in ins, "raw": ins, "fill": ins.get("fill"),
                    "alias": ins.get("alias") or ""})
    # ids for insertions that carry none
    if not all(s["has_id"] for s in out):
        if from_view:
            rank = payload_rank(out, valid_ids)
            for k, s in enumerate(out):
                if not s["has_id"]:
                    s["id"] = rank[k]
        else:
            for k, s in enumerate(out):
                if not s["has_id"]:
                    s["id"] = k + 1
    return out


def _hashable(x):
    try:
        hash(x)
        return True
    except TypeError:
        return False


def payload_rank(subs, valid_ids):
    """1-based rank of each subtotal (by definition index) in payload display order."""
    order = anchored_sequence(list(range(len(valid_ids))), valid_ids, subs)
    rank = {}
    n = 0
    for e in order:
        if e < 0:
            n += 1
            rank[e + len(subs)] = n
    return rank


def anchored_sequence(base_positions, valid_ids, subs):
    """Signed sequence: base positions as given; subtotal k (definition index) as k - n.

    `base_positions`: valid-element positions in the order they are to appear.
    """
    n = len(subs)
    top = [k - n for k, s in enumerate(subs) if s["anchor"] == "top"]
    bottom = [k - n for k, s in enumerate(subs) if s["anchor"] == "bottom"]
    after = {}
    shown = set(valid_ids[p] for p in base_positions)
    for k, s in enumerate(subs):
        a = s["anchor"]
        if a in ("top", "bottom"):
            continue
        if a in shown:
            after.setdefault(a, []).append(k - n)
        else:
            bottom.append(k - n)
    bottom.sort()
    seq = list(top)
    for p in base_positions:
        seq.append(p)
        seq += after.get(valid_ids[p], [])
    return seq + bottom


def explicit_base_order(valid_ids, element_ids, derived=()):
    """Explicit order: first mention wins, unknown ids ignored, leftovers in payload order.

    `derived`: positions of derived (zz9-inserted) items, which are placed separately.
    """
    remaining = [p for p in range(len(valid_ids)) if p not in derived]
    by_id = {valid_ids[p]: p for p in remaining}
    out = []
    for eid in element_ids or []:
        if _hashable(eid) and eid in by_id:
            out.append(by_id.pop(eid))
    out += [p for p in remaining if valid_ids[p] in by_id]
    return out


def display_order(valid_ids, subs, explicit_ids=None, hidden=(), derived_anchor=None):
    """Anchored display order (signed) after removing hidden/pruned base positions.

    `derived_anchor`: {position: "top" | "bottom" | None | (alias, "before"|"after")} for the
    derived (zz9-inserted) items of an MR dimension. It only matters under an explicit order:
    payload order keeps derived items where the back end put them. MR dimensions carry no
    subtotals, so the two mechanisms never meet.
    """
    n = len(valid_ids)
    if explicit_ids is None:
        seq = anchored_sequence(list(range(n)), valid_ids, subs)
    elif not derived_anchor:
        seq = anchored_sequence(explicit_base_order(valid_ids, explicit_ids), valid_ids, subs)
    else:
        derived = sorted(derived_anchor)
        base = explicit_base_order(valid_ids, explicit_ids, derived)
        shown = set(valid_ids[p] for p in base)
        tops, bottoms, before, after = [], [], {}, {}
        for p in derived:
            a = derived_anchor[p]
            if a == "top":
                tops.append(p)
            elif a == "bottom" or a is None:
                bottoms.append(p)
            elif a[0] in shown:
                (before if a[1] == "before" else after).setdefault(a[0], []).append(p)
            else:
                bottoms.append(p)
        seq = list(tops)
        for e in base:
            seq += before.get(valid_ids[e], []) + [e] + after.get(valid_ids[e], [])
        seq += bottoms
        if subs:  # not reachable through the public API; keep subtotals at the bottom
            seq += [k - len(subs) for k in range(len(subs))]
    hid = set(hidden)
    return [e for e in seq if e < 0 or e not in hid]
