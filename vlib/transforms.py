"""Random display transforms (order / hide / prune / rename) and their stripped baseline."""

import copy

from . import expect

ROW_MEASURES = [
    "col_base_unweighted", "col_base_weighted", "col_index", "col_percent", "col_percent_moe",
    "col_std_dev", "col_std_err", "population", "population_moe", "p_value",
    "row_base_unweighted", "row_base_weighted", "row_percent", "row_percent_moe",
    "row_std_dev", "row_std_err", "table_percent", "table_percent_moe", "table_std_dev",
    "table_std_err", "table_base_unweighted", "table_base_weighted", "count_unweighted",
    "count_weighted", "z_score",
]
NUMERIC_MEASURES = {"mean": "mean", "stddev": "stddev", "sum": "sum"}
SHARE_MEASURES = ["col_share_sum", "row_share_sum", "total_share_sum"]
MARGINALS = ["unweighted_base", "weighted_base", "table_proportion", "scale_mean",
             "scale_mean_stddev", "scale_mean_stderr", "scale_median"]
STRAND_MEASURES = ["base_unweighted", "base_weighted", "count_unweighted", "count_weighted",
                   "percent", "percent_moe", "percent_stddev", "percent_stderr", "population",
                   "population_moe"]


def transform_ids(o, d):
    """Element ids as an analysis transform would spell them, valid elements, payload order."""
    ids, _, kind = expect.dim_ids(o, d)
    return ids, kind


def available_measures(spec, strand=False):
    ms = list(STRAND_MEASURES if strand else ROW_MEASURES)
    if spec.numarr is not None and "col_index" in ms:
        ms.remove("col_index")  # the column index is not defined across a numeric array
    for m in ("mean", "stddev", "sum"):
        if m in spec.measures:
            ms.append(m)
    if "sum" in spec.measures:
        ms += ["share_sum"] if strand else SHARE_MEASURES
    return ms


def random_order(g, ids, sub_ids, opp_ids, opp_sub_ids, axis, strand, measures,
                 kinds=None, allow_dups=True, stale=(96, "zz_stale")):
    """Random `order` dict for one dimension (None = no order key)."""
    r = g.r
    if kinds is None:
        kinds = ["none", "explicit", "payload_order", "label"]
        if strand:
            kinds += ["univariate_measure"] * 2
        else:
            kinds += ["opposing_element"] * 2 + ["opposing_insertion"]
            if axis == "rows":
                kinds += ["marginal"]
    kind = g.pick(kinds)
    if kind == "none":
        return None
    od = {"type": kind}
    if kind == "explicit":
        pool = list(ids) + list(stale[:1])
        k = r.randint(0, len(pool))
        lst = r.sample(pool, k)
        if allow_dups and lst and r.random() < 0.3:
            lst.insert(r.randrange(len(lst) + 1), r.choice(lst))
        od["element_ids"] = lst
        return od
    if kind == "payload_order":
        return od
    if r.random() < 0.5:
        od["direction"] = r.choice(["ascending", "descending"])
    fixed = {}
    if ids and r.random() < 0.5:
        top = r.sample(list(ids), r.randint(0, min(2, len(ids))))
        bottom = r.sample(list(ids), r.randint(0, min(2, len(ids))))
        if allow_dups and top and r.random() < 0.25:
            top = top + [top[0]]
        if r.random() < 0.2:
            top = top + [stale[0]]
        if top:
            fixed["top"] = top
        if bottom:
            fixed["bottom"] = bottom
        if fixed:
            od["fixed"] = fixed
    if kind == "label":
        return od
    if kind == "univariate_measure":
        od["measure"] = g.pick(measures + ["no_such_measure"] * (1 if r.random() < 0.1 else 0)
                               or measures)
        return od
    if kind == "marginal":
        od["marginal"] = g.pick(MARGINALS)
        return od
    od["measure"] = g.pick(measures)
    if kind == "opposing_element":
        pool = list(opp_ids) + ([stale[0]] if r.random() < 0.1 else [])
        if not pool:
            return None
        od["element_id"] = r.choice(pool)
    else:
        pool = list(opp_sub_ids) + ([999] if r.random() < 0.15 else [])
        if not pool:
            return None
        od["insertion_id"] = r.choice(pool)
    return od


def random_hides(g, ids, p=0.5, renames=True):
    """Random `elements` dict: hide flags (and names / fills) keyed by element id."""
    r = g.r
    els = {}
    if not ids:
        return els
    if r.random() < p:
        k = r.randint(1, max(1, len(ids) - 1))
        for eid in r.sample(list(ids), min(k, len(ids))):
            els[str(eid) if r.random() < 0.5 else eid] = {"hide": True}
    if renames and r.random() < 0.3:
        eid = r.choice(list(ids))
        key = eid if eid in els else (str(eid) if str(eid) in els else eid)
        els.setdefault(key, {}).update({"name": "renamed %s" % eid})
        if r.random() < 0.5:
            els[key]["fill"] = "#%06x" % r.randrange(0xFFFFFF)
    if r.random() < 0.1:
        els["97"] = {"hide": True}  # stale id: ignored
    # JSON object keys are strings
    return {str(k): v for k, v in els.items()}


def strip_display(tr):
    """Baseline transforms: same insertions / renames / fills, no order, hide or prune."""
    b = copy.deepcopy(tr or {})
    for key in ("rows_dimension", "columns_dimension"):
        d = b.get(key)
        if not d:
            continue
        d.pop("order", None)
        d.pop("prune", None)
        if "elements" in d:
            for k in list(d["elements"].keys()):
                if isinstance(d["elements"][k], dict):
                    d["elements"][k].pop("hide", None)
                    if not d["elements"][k]:
                        del d["elements"][k]
            if not d["elements"]:
                del d["elements"]
    return b
