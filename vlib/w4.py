"""W4 driver: run the repository's integration tests with vlib/w4plugin.py and fold what the
intrinsic relations observed into a CaseResult (one unit per check run)."""

import json
import os
import subprocess
import sys
import tempfile

from . import env


RULE_SUFFIX = (
    " Plus W4: the repository's 806 integration tests run once as a workload with a pytest "
    "plugin (vlib/w4plugin.py) that reads every partition they build (about 1 270, with the "
    "maintainers' hand-picked transforms) under the same intrinsic relations.")


def units(tier, seed):
    return [{"w4": True, "seed": seed}]


def make_case(pid, unit):
    return {"w4": True, "pid": pid}


def tests_root():
    p = os.path.join(env.REPO_ROOT, "tests")
    return p if os.path.isdir(os.path.join(p, "integration")) else "/repo/tests"


def check_case(pid, case):
    from .harness import CaseResult

    res = CaseResult()
    root = tests_root()
    fd, out = tempfile.mkstemp(prefix="w4_%s_" % pid, suffix=".jsonl")
    os.close(fd)
    envv = dict(os.environ, W4_PID=pid, W4_OUT=out, PYTHONHASHSEED="0",
                PYTHONPATH=env.VERIF_ROOT + os.pathsep + os.environ.get("PYTHONPATH", ""))
    try:
        p = subprocess.run(
            [sys.executable, "-m", "pytest", "-q", "-p", "no:cacheprovider", "-p",
             "vlib.w4plugin", "-p", "no:xdist", "-W", "ignore", "integration"],
            cwd=root, env=envv, capture_output=True, text=True, timeout=110)
        tail = (p.stdout.strip().splitlines() or [""])[-1]
        recs = [json.loads(ln) for ln in open(out) if ln.strip()]
    except subprocess.TimeoutExpired:
        res.skipped["w4_pytest_timeout"] += 1
        return res
    finally:
        try:
            os.remove(out)
        except OSError:
            pass
    tests = parts = 0
    for r in recs:
        tests += 1
        parts += r["partitions"]
        for m, n in r["monitors"].items():
            res.monitors["w4:" + m] += n
        res.comparisons += r["comparisons"]
        for k, n in r["skipped"].items():
            res.skipped[k] += n
        for v in r["violations"]:
            d = v.get("detail")
            res.violations.append({"monitor": "w4:" + v["monitor"], "key": v["key"],
                                   "detail": {"test": r["test"], "detail": d}})
    res.observations["w4 tests that built partitions"] = tests
    res.observations["w4 partitions read"] = parts
    res.descriptor = {"workload": "pytest %s/integration with vlib.w4plugin" % root,
                      "pytest_summary": tail, "tests_with_partitions": tests,
                      "partitions": parts}
    res.nontrivial = res.comparisons > 0
    if res.comparisons > 0:
        res.classes.append("w4")  # required reach: a run that observed nothing is inconclusive
    return res
