"""W4: the repository's own integration tests as a workload (DESIGN.md 2.6).

A pytest plugin (`-p vlib.w4plugin`, PYTHONPATH=/verif). The maintainers' integration tests
build cubes from the fixtures with hand-picked transforms; here every partition they create is
*also* read under the intrinsic relations (vlib/intrinsic.py) of one property (env W4_PID)
once the test body has finished. The tests' own assertions play no part; mock-based unit tests
are not run (a relation over a mocked slice means nothing).

Observation point: `CubePartition.factory` is wrapped (in this process only) to remember what
it returned during the running test; the relations read public properties through
`probe.read`, so an exception inside a read is an outcome, not a crash of the test run.
Output: one JSON line per test with monitor evaluations and violations (env W4_OUT).
"""

import json
import os
import sys

VERIF = os.path.dirname(os.path.dirname(os.path.abspath(__file__)))
if VERIF not in sys.path:
    sys.path.insert(0, VERIF)

from vlib import env  # noqa: E402

env.activate()

_created = []
_state = {"out": None, "pid": None, "installed": False}


def _install():
    if _state["installed"]:
        return
    from cr.cube import cubepart

    orig = cubepart.CubePartition.__dict__["factory"].__func__

    def factory(cls, *a, **k):
        part = orig(cls, *a, **k)
        _created.append(part)
        return part

    cubepart.CubePartition.factory = classmethod(factory)
    _state["installed"] = True


def pytest_configure(config):
    _state["pid"] = os.environ.get("W4_PID", "C03")
    out = os.environ.get("W4_OUT")
    _state["out"] = open(out, "a") if out else None
    _install()


def pytest_runtest_setup(item):
    del _created[:]


def pytest_runtest_teardown(item, nextitem):
    from vlib import intrinsic
    from vlib.harness import CaseResult
    from vlib.probe import read

    parts = list(_created)
    del _created[:]
    if not parts or _state["out"] is None:
        return
    res = CaseResult()
    seen = set()
    n = 0
    for part in parts[:40]:
        if id(part) in seen or type(part).__name__ not in ("_Slice", "_Strand"):
            continue
        seen.add(id(part))
        n += 1
        ctx = {}
        for key, attr in (("alpha", "_alpha"), ("alpha_alt", "_alpha_alt"),
                          ("only_larger", "_only_larger"), ("population", "_population"),
                          ("mask_size", "_mask_size")):
            g = read(part, attr)  # hooked state: what this partition was configured with
            ctx[key] = g.value if g.ok else None
        ctx["display_transforms"] = True  # unknown here: relations that need "none" are skipped
        try:
            intrinsic.run(_state["pid"], res, part, ctx, prefix="w4/")
        except Exception as e:  # the monitor's own failure: reported, never a violation
            res.skipped["w4_monitor_error:%s" % type(e).__name__] += 1
    rec = {"test": item.nodeid, "partitions": n, "comparisons": res.comparisons,
           "monitors": dict(res.monitors), "skipped": dict(res.skipped),
           "violations": res.violations[:5]}
    _state["out"].write(json.dumps(rec, default=str) + "\n")
    _state["out"].flush()


def pytest_unconfigure(config):
    if _state["out"] is not None:
        _state["out"].close()
